package c15

// oracle.go: the independent derivation on the model tree and the rules that
// are judged. Only what the property statement says is a verdict; equality
// with the full model (including the trimming rules: head-lookback, freshness,
// length cap) is computed too but is informational.

import (
	"bytes"
	"fmt"
	"time"

	"github.com/filecoin-project/go-f3/certs"
	"github.com/filecoin-project/go-f3/gpbft"
)

const protocolMaxLen = 128 // FIP-0086 / gpbft.ChainMaxLen: maximum tipsets in a chain value, base included

type finding struct {
	sig    string
	detail string
}

// relation of a head h to a base b in the model tree.
func relation(b, h *node) string {
	switch {
	case h == b:
		return "base"
	case b.isAncestorOrSelf(h):
		return "descendant"
	case h.isAncestorOrSelf(b):
		return "ancestor"
	case h.epoch == b.epoch:
		return "sibling"
	default:
		return "other-branch"
	}
}

// wellFormed re-implements the chain well-formedness the property refers to
// (gpbft.ECChain.Validate semantics): at least the base, no nil tipsets, keys
// non-empty and at most 760 bytes, power-table CID defined and at most 38
// bytes, epochs non-negative and strictly increasing, at most 128 tipsets.
func wellFormed(c *gpbft.ECChain) string {
	if c == nil || len(c.TipSets) == 0 {
		return "zero chain"
	}
	if len(c.TipSets) > protocolMaxLen {
		return "longer than the protocol maximum"
	}
	last := int64(-1)
	for _, ts := range c.TipSets {
		switch {
		case ts == nil:
			return "nil tipset"
		case len(ts.Key) == 0:
			return "empty tipset key"
		case len(ts.Key) > 20*38:
			return "tipset key too long"
		case !ts.PowerTable.Defined():
			return "undefined power-table CID"
		case ts.PowerTable.ByteLen() > 38:
			return "power-table CID too long"
		case ts.Epoch <= last:
			return "epochs not strictly increasing"
		}
		last = ts.Epoch
	}
	return ""
}

type proposalObs struct {
	inst    uint64
	held    int
	head    *node // what GetHead returned during the call (nil: never asked)
	cfgHead *node // the view's head when the call started
	now     time.Time
	supp    *gpbft.SupplementalData
	chain   *gpbft.ECChain
	err     error
	panicV  any
	hidden  bool // the EC view hides tipsets in this query (availability is then not judged)
	touched bool
}

type proposalVerdict struct {
	findings    []finding
	judged      bool // a returned proposal was judged against rules 1-7
	baseOnly    bool // head did not descend from base (or was the base) and the proposal was base-only
	collapse    bool // head NOT a descendant-or-self of the base -> collapse observed
	exact       bool // equals the full model including trimming rules
	exactKnown  bool
	rel         string
	expectErr   bool
	gotErr      bool
	capHit      bool
	lookbackHit bool
	freshHit    bool
	suffixLen   int
}

// expectedFull is the full model: parent path base->head, minus HeadLookback
// tipsets from the head end, minus one more if the remaining last tipset is
// younger than one EC period, capped to min(128, ChainProposedLength) tipsets
// including the base.
func (w *world) expectedFull(base, head *node, now time.Time) (chain []*node, lookbackHit, freshHit, capHit bool) {
	path := parentPath(base, head)
	if path == nil {
		return []*node{base}, false, false, false
	}
	suffix := path[1:]
	if hl := w.p.HeadLookback; hl > 0 && len(suffix) > 0 {
		suffix = suffix[:max(0, len(suffix)-hl)]
		lookbackHit = true
	}
	if len(suffix) > 0 && now.Sub(suffix[len(suffix)-1].ts) < w.t.period {
		suffix = suffix[:len(suffix)-1]
		freshHit = true
	}
	bound := min(protocolMaxLen, w.p.CPL) - 1
	if len(suffix) > bound {
		suffix = suffix[:bound]
		capHit = true
	}
	return append([]*node{base}, suffix...), lookbackHit, freshHit, capHit
}

func (w *world) judgeProposal(o proposalObs) proposalVerdict {
	var v proposalVerdict
	add := func(sig, detail string) { v.findings = append(v.findings, finding{sig, detail}) }
	if o.panicV != nil {
		add("C15 GetProposal panicked", fmt.Sprint(o.panicV))
		return v
	}
	base, baseOK := w.baseOf(o.inst, o.held)
	next, nextOK := w.committee(o.inst+1, o.held)
	v.gotErr = o.err != nil

	if o.err != nil {
		// Availability: with every EC tipset known, a held previous certificate (or, for
		// the first instance, a head at/after the bootstrap tipset) and a derivable next
		// committee there is a proposal to make (at least the base alone).
		derivable := baseOK && nextOK && !o.hidden
		if o.inst == w.p.Initial && o.cfgHead.epoch < w.p.bte() {
			// the bootstrap base is resolved by epoch on the head's chain: nothing to resolve yet
			derivable = false
		}
		v.expectErr = !derivable
		if derivable {
			add("C15 GetProposal failed although base, head and next committee are all derivable from the model",
				fmt.Sprintf("instance=%d err=%v", o.inst, o.err))
		}
		return v
	}
	if !baseOK || !nextOK {
		if o.inst >= w.p.Initial {
			add("C15 GetProposal returned a proposal although the previous certificate / next committee is not derivable from finalized history",
				fmt.Sprintf("instance=%d baseDerivable=%v nextCommitteeDerivable=%v held=%d", o.inst, baseOK, nextOK, o.held))
		}
		return v
	}
	v.judged = true
	c := o.chain
	// rule 5: well-formed
	if why := wellFormed(c); why != "" {
		add("C15 proposal chain malformed: "+why, fmt.Sprintf("instance=%d chain=%v", o.inst, c))
		return v
	}
	v.suffixLen = len(c.TipSets) - 1
	// rule 1: base
	if !bytes.Equal(c.TipSets[0].Key, base.key) || c.TipSets[0].Epoch != base.epoch {
		add("C15 proposal base is not the tipset finalized by the previous instance (bootstrap tipset for the first instance)",
			fmt.Sprintf("instance=%d got epoch=%d want %s", o.inst, c.TipSets[0].Epoch, base))
		return v
	}
	// rule 3: length
	bound := min(protocolMaxLen, w.p.CPL)
	if len(c.TipSets) > bound {
		add("C15 proposal longer than min(128, ChainProposedLength) tipsets (base included)",
			fmt.Sprintf("instance=%d len=%d bound=%d", o.inst, len(c.TipSets), bound))
	}
	head := o.head
	if head == nil {
		add("C15 proposal returned without ever asking EC for its head", fmt.Sprintf("instance=%d", o.inst))
		return v
	}
	v.rel = relation(base, head)
	path := parentPath(base, head)
	if path == nil {
		// rule 4: collapse
		if len(c.TipSets) != 1 {
			add("C15 proposal is not the base alone although the EC head does not descend from the base (head is "+v.rel+")",
				fmt.Sprintf("instance=%d len=%d base=%s head=%s", o.inst, len(c.TipSets), base, head))
		} else {
			v.collapse, v.baseOnly = true, true
		}
	} else {
		// rule 2: prefix of the parent path base -> head, never reaching into the last HeadLookback tipsets
		adj := path[:max(1, len(path)-w.p.HeadLookback)]
		for i := 1; i < len(c.TipSets); i++ {
			got := c.TipSets[i]
			if i >= len(path) || !bytes.Equal(got.Key, path[i].key) || got.Epoch != path[i].epoch {
				where := "a tipset that is not on it"
				if n := w.t.lookup(got.Key); n == nil {
					where = "a tipset unknown to EC"
				} else if n == base {
					where = "the base repeated"
				} else if n.isAncestorOrSelf(head) && base.isAncestorOrSelf(n) {
					where = "a tipset of the path out of order (gap or repetition)"
				} else if n.epoch == func() int64 {
					if i < len(path) {
						return path[i].epoch
					}
					return -1
				}() {
					where = "a same-epoch tipset of another branch"
				}
				add("C15 proposal suffix is not a prefix of the parent path base->head: contains "+where,
					fmt.Sprintf("instance=%d position=%d got=%v base=%s head=%s", o.inst, i, w.t.lookup(got.Key), base, head))
				break
			}
			if i >= len(adj) {
				add("C15 proposal reaches into the last HeadLookback tipsets below the EC head",
					fmt.Sprintf("instance=%d position=%d pathLen=%d headLookback=%d", o.inst, i, len(path), w.p.HeadLookback))
				break
			}
		}
		if len(path) == 1 && len(c.TipSets) == 1 {
			v.baseOnly = true
		}
	}
	// rule 6: power-table CIDs
	for i, ts := range c.TipSets {
		n := w.t.lookup(ts.Key)
		if n == nil {
			continue // already reported by rule 2
		}
		if !ts.PowerTable.Equals(n.tableCID()) {
			add("C15 tipset power-table CID is not CID(EC power table at that tipset)",
				fmt.Sprintf("instance=%d position=%d tipset=%s got=%s want=%s", o.inst, i, n, ts.PowerTable, n.tableCID()))
			break
		}
	}
	// rule 7: supplemental data
	wantSupp, err := certs.MakePowerTableCID(next.table)
	if err != nil {
		panic(err)
	}
	if o.supp == nil || !o.supp.PowerTable.Equals(wantSupp) {
		add("C15 supplemental data power table is not CID(committee(instance+1))",
			fmt.Sprintf("instance=%d got=%v want=%s window=%v", o.inst, o.supp, wantSupp, next.window))
	}
	// informational: full model
	exp, lb, fr, ch := w.expectedFull(base, head, o.now)
	v.lookbackHit, v.freshHit, v.capHit = lb, fr, ch
	v.exactKnown = true
	v.exact = len(exp) == len(c.TipSets)
	if v.exact {
		for i := range exp {
			if !bytes.Equal(exp[i].key, c.TipSets[i].Key) {
				v.exact = false
			}
		}
	}
	return v
}

// ---------------------------------------------------------------- committees

type committeeObs struct {
	inst   uint64
	held   int
	com    *gpbft.Committee
	err    error
	panicV any
	// the call had everything EC-side it could need (no hidden tipsets, head at/after bootstrap)
	ecComplete bool
}

func entriesEqualAsSets(a, b gpbft.PowerEntries) bool {
	if len(a) != len(b) {
		return false
	}
	m := map[gpbft.ActorID]gpbft.PowerEntry{}
	for _, e := range a {
		m[e.ID] = e
	}
	for _, e := range b {
		x, ok := m[e.ID]
		if !ok || x.Power.Int.Cmp(e.Power.Int) != 0 || !bytes.Equal(x.PubKey, e.PubKey) {
			return false
		}
		delete(m, e.ID)
	}
	return len(m) == 0
}

type committeeVerdict struct {
	findings []finding
	judged   bool
	window   bool
	beaconOK bool // informational inside the window
}

func (w *world) judgeCommittee(o committeeObs, who string) committeeVerdict {
	var v committeeVerdict
	add := func(sig, detail string) { v.findings = append(v.findings, finding{sig, detail}) }
	if o.panicV != nil {
		add("C15 GetCommittee panicked", fmt.Sprint(o.panicV))
		return v
	}
	mc, ok := w.committee(o.inst, o.held)
	if o.err != nil {
		if ok && o.ecComplete {
			add("C15 GetCommittee failed although the committee is derivable from the certificates held",
				fmt.Sprintf("node=%s instance=%d held=%d err=%v", who, o.inst, o.held, o.err))
		}
		return v
	}
	if !ok {
		if o.inst >= w.p.Initial {
			add("C15 GetCommittee returned a committee although certificate (instance - lookback) is not held",
				fmt.Sprintf("node=%s instance=%d held=%d lookback=%d", who, o.inst, o.held, w.p.Lookback))
		}
		return v
	}
	v.judged, v.window = true, mc.window
	if o.com == nil || o.com.PowerTable == nil {
		add("C15 GetCommittee returned no power table", fmt.Sprintf("node=%s instance=%d", who, o.inst))
		return v
	}
	if !entriesEqualAsSets(o.com.PowerTable.Entries, mc.table) {
		if mc.window {
			add("C15 committee inside the initial look-back window is not the initial power table",
				fmt.Sprintf("node=%s instance=%d", who, o.inst))
		} else {
			add("C15 committee table is not EC's power table at the head finalized by certificate (instance - lookback)",
				fmt.Sprintf("node=%s instance=%d lookback=%d want table at %s", who, o.inst, w.p.Lookback, mc.at))
		}
	}
	v.beaconOK = bytes.Equal(o.com.Beacon, mc.at.beacon)
	if !mc.window && !v.beaconOK {
		at := "unknown tipset"
		for _, n := range w.t.nodes {
			if bytes.Equal(n.beacon, o.com.Beacon) {
				at = n.String()
			}
		}
		add("C15 committee beacon is not the beacon at the head finalized by certificate (instance - lookback)",
			fmt.Sprintf("node=%s instance=%d lookback=%d want beacon of %s got beacon of %s", who, o.inst, w.p.Lookback, mc.at, at))
	}
	return v
}

// committeeBytes is the canonical byte image compared between two nodes.
func committeeBytes(c *gpbft.Committee) []byte {
	var buf bytes.Buffer
	if c == nil || c.PowerTable == nil {
		return nil
	}
	if err := c.PowerTable.Entries.MarshalCBOR(&buf); err != nil {
		panic(err)
	}
	fmt.Fprintf(&buf, "|scaled=%v|total=%s|scaledTotal=%d|beacon=%x", c.PowerTable.ScaledPower, c.PowerTable.Total, c.PowerTable.ScaledTotal, c.Beacon)
	return buf.Bytes()
}
