package c15

// gen.go: case generation -- manifest, model tree, certificate history, real
// certificate stores.

import (
	"context"
	"fmt"
	"math/rand"
	"sort"
	"strings"
	"sync"
	"time"

	"github.com/filecoin-project/go-f3/certs"
	"github.com/filecoin-project/go-f3/certstore"
	"github.com/filecoin-project/go-f3/gpbft"
	clk "github.com/filecoin-project/go-f3/internal/clock"
	"github.com/filecoin-project/go-f3/manifest"
	"github.com/filecoin-project/go-f3/verifh/vfix"
	"github.com/ipfs/go-datastore"
	dssync "github.com/ipfs/go-datastore/sync"
)

type params struct {
	Epochs        int     `json:"epochs"`
	NullP         float64 `json:"null_p"`
	NullRuns      bool    `json:"null_runs"`
	Finality      int64   `json:"finality"`
	Bootstrap     int64   `json:"bootstrap_epoch"`
	Initial       uint64  `json:"initial_instance"`
	Lookback      uint64  `json:"committee_lookback"`
	HeadLookback  int     `json:"head_lookback"`
	CPL           int     `json:"chain_proposed_length"`
	PeriodS       int     `json:"ec_period_s"`
	NCerts        int     `json:"certs"`
	Forks         int     `json:"forks"`
	TableChange   float64 `json:"table_change_p"`
	InitialFromEC bool    `json:"initial_table_from_ec"`
	LongCerts     bool    `json:"long_certs"`
}

type world struct {
	p            params
	t            *tree
	bootstrap    *node // the tipset at (or, if null, the latest before) BootstrapEpoch-Finality on the main branch
	bootIdx      int   // its index in t.main
	initialTable gpbft.PowerEntries
	certs        []*certs.FinalityCertificate // certs[i] is instance Initial+i
	heads        []*node                      // head tipset finalized by certs[i]
	headIdx      []int                        // index of heads[i] in t.main
	mf           manifest.Manifest
	forkKinds    map[string]int
	tg           *tableGen
	after        []*node
}

func pick[T any](rng *rand.Rand, xs ...T) T { return xs[rng.Intn(len(xs))] }

func genParams(rng *rand.Rand) params {
	var p params
	switch rng.Intn(10) {
	case 0, 1, 2:
		p.Epochs = 20 + rng.Intn(40)
	case 3, 4, 5, 6:
		p.Epochs = 60 + rng.Intn(140)
	default:
		p.Epochs = 200 + rng.Intn(201)
	}
	p.NullP = pick(rng, 0, 0, 0.05, 0.15, 0.3, 0.5, rng.Float64()*0.5)
	p.NullRuns = rng.Intn(3) == 0
	p.Finality = pick(rng, int64(0), 1, 2, 5, 10, 20, 900)
	bte := int64(rng.Intn(1 + min(p.Epochs/4, 40)))
	p.Bootstrap = bte + p.Finality
	switch rng.Intn(6) {
	case 0, 1, 2:
		p.Initial = 0
	case 3:
		p.Initial = uint64(1 + rng.Intn(50))
	case 4:
		p.Initial = uint64(1440 - 1 - rng.Intn(30)) // the history crosses the store's 1440 checkpoint
	default:
		p.Initial = uint64(rng.Int63n(1 << 40))
	}
	switch rng.Intn(10) {
	case 0:
		p.Lookback = 1
	case 1, 2, 3:
		p.Lookback = 2
	case 4:
		p.Lookback = 10
	default:
		p.Lookback = uint64(2 + rng.Intn(11))
	}
	p.HeadLookback = pick(rng, 0, 0, 0, 1, 2, 3, 4, 5)
	switch rng.Intn(10) {
	case 0:
		p.CPL = 1
	case 1:
		p.CPL = 2
	case 2:
		p.CPL = pick(rng, 127, 128, 129)
	case 3:
		p.CPL = 129 + rng.Intn(72)
	case 4:
		p.CPL = 100
	default:
		p.CPL = 1 + rng.Intn(200)
	}
	p.PeriodS = pick(rng, 1, 4, 30, 30)
	switch rng.Intn(8) {
	case 0:
		p.NCerts = 0
	case 1:
		p.NCerts = 1 + rng.Intn(2)
	default:
		p.NCerts = rng.Intn(41)
	}
	p.Forks = pick(rng, 0, 1, 2, 3, 4, 5, 6)
	p.TableChange = pick(rng, 0, 0.2, 0.6, 1, 1)
	p.InitialFromEC = rng.Intn(10) < 7
	p.LongCerts = rng.Intn(6) == 0
	return p
}

func (p params) bte() int64 { return p.Bootstrap - p.Finality }

func buildManifest(p params) manifest.Manifest {
	m := manifest.LocalDevnetManifest()
	m.NetworkName = vfix.NN
	m.InitialInstance = p.Initial
	m.BootstrapEpoch = p.Bootstrap
	m.CommitteeLookback = p.Lookback
	m.EC.Finality = p.Finality
	m.EC.Period = time.Duration(p.PeriodS) * time.Second
	m.EC.HeadLookback = p.HeadLookback
	m.Gpbft.ChainProposedLength = p.CPL
	m.ChainExchange.MaxChainLength = max(m.ChainExchange.MaxChainLength, p.CPL)
	m.ChainExchange.MaxInstanceLookahead = min(m.ChainExchange.MaxInstanceLookahead, p.Lookback)
	m.CertificateExchange.MinimumPollInterval = m.EC.Period
	m.CertificateExchange.MaximumPollInterval = 4 * m.EC.Period
	return m
}

// nullGap draws the number of null rounds preceding the next tipset.
func nullGap(rng *rand.Rand, p params) int64 {
	var g int64
	for g < 12 && rng.Float64() < p.NullP {
		g++
	}
	if p.NullRuns && rng.Intn(12) == 0 {
		g += int64(1 + rng.Intn(6))
	}
	return g
}

func buildWorld(seed int64, p params) (*world, error) {
	rng := rand.New(rand.NewSource(seed))
	w := &world{p: p, mf: buildManifest(p), forkKinds: map[string]int{}}
	if err := w.mf.Validate(); err != nil {
		return nil, fmt.Errorf("generated manifest does not validate: %w", err)
	}
	t := &tree{seed: seed, byKey: map[string]*node{}, tipOf: map[int]*node{},
		genesis: time.Unix(1_600_000_000, 0).Add(time.Duration(rng.Intn(1000)) * time.Millisecond),
		period:  w.mf.EC.Period}
	w.t = t
	tg := &tableGen{rng: rand.New(rand.NewSource(seed ^ 0x5eed)), change: p.TableChange, big: rng.Intn(4) == 0}
	w.tg = tg

	// main branch: epoch 0 is never null
	cur := t.newNode(nil, 0, 0, tg.fresh(1+rng.Intn(10)))
	t.main = append(t.main, cur)
	for {
		e := cur.epoch + 1 + nullGap(rng, p)
		if e > int64(p.Epochs) {
			break
		}
		cur = t.newNode(cur, e, 0, tg.evolve(cur.table))
		t.main = append(t.main, cur)
	}
	// bootstrap tipset on the main branch
	for i, n := range t.main {
		if n.epoch <= p.bte() {
			w.bootstrap, w.bootIdx = n, i
		}
	}
	if p.InitialFromEC {
		w.initialTable = w.bootstrap.table
	} else {
		w.initialTable = tg.fresh(1 + rng.Intn(8))
	}

	// certificate history along the main branch (it may stop anywhere: lagging finality)
	pos := w.bootIdx
	for i := 0; i < p.NCerts; i++ {
		var k int
		switch r := rng.Intn(20); {
		case r < 3:
			k = 0
		case r < 13:
			k = 1 + rng.Intn(3)
		case r < 18:
			k = 4 + rng.Intn(17)
		default:
			k = 21 + rng.Intn(107)
		}
		if p.LongCerts && rng.Intn(2) == 0 {
			k = 60 + rng.Intn(68)
		}
		np := min(pos+k, len(t.main)-1)
		w.heads = append(w.heads, t.main[np])
		w.headIdx = append(w.headIdx, np)
		pos = np
	}
	prev := w.bootIdx
	for i := 0; i < p.NCerts; i++ {
		inst := p.Initial + uint64(i)
		cur, ok1 := w.committee(inst, i+1)
		next, ok2 := w.committee(inst+1, i+1)
		if !ok1 || !ok2 {
			return nil, fmt.Errorf("model committee undefined while building certificate %d", inst)
		}
		chain := &gpbft.ECChain{}
		for _, n := range t.main[prev : w.headIdx[i]+1] {
			chain.TipSets = append(chain.TipSets, &gpbft.TipSet{Epoch: n.epoch, Key: append([]byte(nil), n.key...), PowerTable: n.tableCID()})
		}
		cidNext, err := certs.MakePowerTableCID(next.table)
		if err != nil {
			return nil, err
		}
		w.certs = append(w.certs, &certs.FinalityCertificate{
			GPBFTInstance:    inst,
			ECChain:          chain,
			SupplementalData: gpbft.SupplementalData{PowerTable: cidNext},
			Signers:          vfix.Bitfield([]int{0}),
			Signature:        make([]byte, 96),
			PowerTableDelta:  certs.MakePowerTableDiff(cur.table, next.table),
		})
		prev = w.headIdx[i]
	}

	// forks, positioned relative to bases of interest
	for f := 1; f <= p.Forks; f++ {
		w.addFork(rng, f)
	}
	return w, nil
}

// modelCommittee is the property's look-back rule evaluated on the model.
type modelCommittee struct {
	table  gpbft.PowerEntries
	at     *node // tipset whose beacon is used
	window bool  // inside the initial look-back window
}

// committee(inst) on a node that holds the first `held` certificates of the
// history. ok=false: not derivable from that finalized history.
func (w *world) committee(inst uint64, held int) (modelCommittee, bool) {
	if inst < w.p.Initial {
		return modelCommittee{}, false
	}
	if inst < w.p.Initial+w.p.Lookback {
		return modelCommittee{table: w.initialTable, at: w.bootstrap, window: true}, true
	}
	j := inst - w.p.Lookback - w.p.Initial
	if j >= uint64(held) {
		return modelCommittee{}, false
	}
	return modelCommittee{table: w.heads[j].table, at: w.heads[j]}, true
}

// baseOf(inst): the tipset finalized by the previous instance (bootstrap tipset for the first).
func (w *world) baseOf(inst uint64, held int) (*node, bool) {
	if inst == w.p.Initial {
		return w.bootstrap, true
	}
	if inst < w.p.Initial || inst-w.p.Initial-1 >= uint64(held) {
		return nil, false
	}
	return w.heads[inst-w.p.Initial-1], true
}

func (w *world) addFork(rng *rand.Rand, branch int) {
	t := w.t
	// focus base
	fbIdx := w.bootIdx
	if len(w.headIdx) > 0 {
		switch rng.Intn(10) {
		case 0:
		case 1, 2, 3:
			fbIdx = w.headIdx[rng.Intn(len(w.headIdx))]
		default:
			fbIdx = w.headIdx[len(w.headIdx)-1]
		}
	}
	fb := t.main[fbIdx]
	var bp *node
	kind := pick(rng, "before", "sibling", "at", "at", "after", "after", "nested")
	firstEpoch := int64(-1)
	switch kind {
	case "before":
		if fbIdx > w.bootIdx {
			bp = t.main[w.bootIdx+rng.Intn(fbIdx-w.bootIdx)]
		}
	case "sibling":
		if fbIdx > w.bootIdx {
			bp, firstEpoch = fb.parent, fb.epoch
		}
	case "at":
		bp = fb
	case "after":
		if fbIdx < len(t.main)-1 {
			bp = t.main[fbIdx+1+rng.Intn(len(t.main)-1-fbIdx)]
		}
	case "nested":
		var side []*node
		for _, n := range t.nodes {
			if n.branch != 0 {
				side = append(side, n)
			}
		}
		if len(side) > 0 {
			bp = side[rng.Intn(len(side))]
		}
	}
	if bp == nil {
		kind, bp = "at", fb
	}
	if firstEpoch < 0 {
		firstEpoch = max(bp.epoch, w.p.bte()) + 1 + nullGap(rng, w.p)
		if rng.Intn(3) == 0 && len(bp.children) > 0 {
			// same epoch as an existing child: siblings at the same height
			firstEpoch = max(bp.children[0].epoch, w.p.bte()+1)
		}
	}
	length := 1 + rng.Intn(40)
	if rng.Intn(8) == 0 {
		length = 100 + rng.Intn(80)
	}
	// the side branch evolves its tables differently (higher change rate so that
	// same-epoch tipsets on different branches usually carry different tables)
	saved := w.tg.change
	w.tg.change = max(saved, 0.7)
	cur := t.newNode(bp, firstEpoch, branch, w.tg.evolve(bp.table))
	for i := 1; i < length; i++ {
		cur = t.newNode(cur, cur.epoch+1+nullGap(rng, w.p), branch, w.tg.evolve(cur.table))
	}
	w.tg.change = saved
	w.forkKinds[kind]++
}

// afterBootstrap lists the tipsets an EC head can be at once F3 has bootstrapped:
// at/after epoch BootstrapEpoch-Finality (all of them descend from the bootstrap tipset).
func (w *world) afterBootstrap() []*node {
	if w.after == nil {
		for _, n := range w.t.nodes {
			if n.epoch >= w.p.bte() && w.bootstrap.isAncestorOrSelf(n) {
				w.after = append(w.after, n)
			}
		}
	}
	return w.after
}

func (w *world) shapeClass() string {
	if len(w.forkKinds) == 0 {
		return "linear"
	}
	ks := make([]string, 0, len(w.forkKinds))
	for k := range w.forkKinds {
		ks = append(ks, k)
	}
	sort.Strings(ks)
	return "forks:" + strings.Join(ks, "+")
}

// openStore creates a REAL certificate store and feeds it the first `held`
// certificates through Put.
func (w *world) openStore(ctx context.Context, held int) (*certstore.Store, error) {
	ds := dssync.MutexWrap(datastore.NewMapDatastore())
	cs, err := certstore.CreateStore(ctx, ds, w.p.Initial, w.initialTable)
	if err != nil {
		return nil, fmt.Errorf("CreateStore: %w", err)
	}
	for i := 0; i < held; i++ {
		if err := cs.Put(ctx, w.certs[i]); err != nil {
			return nil, fmt.Errorf("Put(%d): %w", w.certs[i].GPBFTInstance, err)
		}
	}
	return cs, nil
}

// setClock is a settable mock clock: go-clock's Mock with Now/Since/Until
// answered from a directly settable instant (Mock.Set sleeps 1 ms of real time
// per call, which would dominate the run). Never reads the wall clock.
type setClock struct {
	*clk.Mock
	mu  sync.Mutex
	now time.Time
}

func newSetClock(t time.Time) *setClock { return &setClock{Mock: clk.NewMock(), now: t} }

func (c *setClock) SetNow(t time.Time)              { c.mu.Lock(); c.now = t; c.mu.Unlock() }
func (c *setClock) Now() time.Time                  { c.mu.Lock(); defer c.mu.Unlock(); return c.now }
func (c *setClock) Since(t time.Time) time.Duration { return c.Now().Sub(t) }
func (c *setClock) Until(t time.Time) time.Duration { return t.Sub(c.Now()) }
