package c15

// check_test.go: the C15 driver. One case = (model EC tree, manifest,
// certificate history in a REAL certstore) and a batch of GetProposal /
// GetCommittee queries against the PRODUCTION gpbftInputs (constructed through
// the injected accessor f3.VerifNewInputs), each judged by the oracle of
// oracle.go. A second, small phase drives a real gpbft.Participant with a host
// that hands it over-long and malformed chains (participant.go).

import (
	"bytes"
	"context"
	"encoding/hex"
	"fmt"
	"math/rand"
	"os"
	"runtime"
	"sync"
	"testing"
	"time"

	f3 "github.com/filecoin-project/go-f3"
	"github.com/filecoin-project/go-f3/gpbft"
	"github.com/filecoin-project/go-f3/verifh/vkit"
	"github.com/filecoin-project/go-f3/verifh/vsig"
	logging "github.com/ipfs/go-log/v2"
)

type caseRun struct {
	run    *vkit.Run
	idx    int
	seed   int64
	w      *world
	rng    *rand.Rand
	counts map[string]int64
	failed bool
	mu     *sync.Mutex
}

func (c *caseRun) count(k string, n int64) { c.counts[k] += n }

func chainDesc(w *world, ch *gpbft.ECChain) []string {
	if ch == nil {
		return nil
	}
	var out []string
	for i, ts := range ch.TipSets {
		if i >= 12 && i < len(ch.TipSets)-3 {
			if i == 12 {
				out = append(out, "...")
			}
			continue
		}
		if ts == nil {
			out = append(out, "<nil>")
			continue
		}
		n := w.t.lookup(ts.Key)
		out = append(out, fmt.Sprintf("%v(epoch=%d,key=%s..)", n, ts.Epoch, hex.EncodeToString(ts.Key[:min(6, len(ts.Key))])))
	}
	return out
}

func (c *caseRun) report(f finding, extra map[string]any) {
	wit := map[string]any{"case": c.idx, "case_seed": c.seed, "params": c.w.p, "detail": f.detail,
		"shape": c.w.shapeClass(), "main_tipsets": len(c.w.t.main), "tree_tipsets": len(c.w.t.nodes)}
	for k, v := range extra {
		wit[k] = v
	}
	c.failed = true
	c.run.Violation(f.sig, wit)
}

// descTips returns the branch tips that strictly descend from b.
func (w *world) descTips(b *node) []*node {
	var out []*node
	for br := 0; br <= w.p.Forks; br++ {
		if tip := w.t.tipOf[br]; tip != nil && tip != b && b.isAncestorOrSelf(tip) {
			out = append(out, tip)
		}
	}
	return out
}

// pickHead chooses an EC head of the wanted class relative to base b (falls
// back to a random tipset when the tree has none of that class). A second
// return value != nil asks for a reorg to that tipset while the call is in flight.
func (c *caseRun) pickHead(b *node, want string) (*node, *node) {
	w, rng := c.w, c.rng
	t := w.t
	switch want {
	case "far":
		if tips := w.descTips(b); len(tips) > 0 {
			return tips[rng.Intn(len(tips))], nil
		}
	case "near":
		if tips := w.descTips(b); len(tips) > 0 {
			p := parentPath(b, tips[rng.Intn(len(tips))])
			return p[1+rng.Intn(min(len(p)-1, w.p.HeadLookback+3))], nil
		}
	case "cap":
		// a descendant about min(128, CPL) tipsets ahead: the length bound is exactly reached / just missed
		if tips := w.descTips(b); len(tips) > 0 {
			p := parentPath(b, tips[rng.Intn(len(tips))])
			d := min(protocolMaxLen, w.p.CPL) - 1 + w.p.HeadLookback + rng.Intn(4) - 1
			return p[max(1, min(len(p)-1, d))], nil
		}
	case "base":
		return b, nil
	case "sibling":
		var s []*node
		for _, n := range t.nodes {
			if n.epoch == b.epoch && n != b {
				s = append(s, n)
			}
		}
		if len(s) > 0 {
			return s[rng.Intn(len(s))], nil
		}
	case "ancestor":
		if b.parent != nil {
			a := b.parent
			for a.parent != nil && rng.Intn(3) != 0 {
				a = a.parent
			}
			return a, nil
		}
	case "other", "other-low":
		var s []*node
		for _, n := range t.nodes {
			if b.isAncestorOrSelf(n) || n.isAncestorOrSelf(b) {
				continue
			}
			if (want == "other") == (n.epoch > b.epoch) && n.epoch != b.epoch {
				s = append(s, n)
			}
		}
		if len(s) > 0 {
			return s[rng.Intn(len(s))], nil
		}
	case "reorg":
		tips := w.descTips(b)
		if len(tips) >= 2 {
			i := rng.Intn(len(tips))
			j := (i + 1 + rng.Intn(len(tips)-1)) % len(tips)
			return tips[i], tips[j]
		}
		if aft := w.afterBootstrap(); len(tips) == 1 && len(aft) > 0 {
			// reorg to some other tipset, possibly off the base's subtree, but never below the
			// bootstrap tipset (EC-final by assumption)
			return tips[0], aft[rng.Intn(len(aft))]
		}
	}
	return t.nodes[rng.Intn(len(t.nodes))], nil
}

var headWants = []string{"far", "far", "far", "near", "near", "cap", "base", "sibling", "ancestor", "other", "other", "other-low", "reorg", "reorg", "random"}

func safeProposal(in f3.VerifInputs, ctx context.Context, inst uint64) (sd *gpbft.SupplementalData, ch *gpbft.ECChain, err error, pv any) {
	defer func() {
		if r := recover(); r != nil {
			pv = r
		}
	}()
	sd, ch, err = in.GetProposal(ctx, inst)
	return
}

func safeCommittee(in f3.VerifInputs, ctx context.Context, inst uint64) (com *gpbft.Committee, err error, pv any) {
	defer func() {
		if r := recover(); r != nil {
			pv = r
		}
	}()
	com, err = in.GetCommittee(ctx, inst)
	return
}

func (c *caseRun) exec() {
	w, rng := c.w, c.rng
	ctx := context.Background()
	held := len(w.certs)
	latestNext := w.p.Initial + uint64(held) // the instance a node holding all certificates would run next
	period := w.t.period

	storeA, err := w.openStore(ctx, held)
	if err != nil {
		c.run.Inconclusive("harness-error")
		fmt.Printf("case %d: cannot build store: %v\n", c.idx, err)
		c.failed = true
		return
	}
	viewA := &ecView{t: w.t, head: w.t.tipOf[0], hidden: map[*node]bool{}}
	clockA := newSetClock(w.t.genesis)
	inA := f3.VerifNewInputs(w.mf, storeA, viewA, vsig.Backend{}, clockA)

	c.count("cases", 1)
	c.count("shape["+w.shapeClass()+"]", 1)
	c.count("certificates_put", int64(held))
	for k, n := range w.forkKinds {
		c.count("forks_generated["+k+"]", int64(n))
	}

	// ------------------------------------------------------------ proposals
	nq := 6 + rng.Intn(8)
	for q := 0; q < nq && !c.failed; q++ {
		var inst uint64
		switch r := rng.Intn(20); {
		case r < 9:
			inst = latestNext
		case r < 11:
			inst = w.p.Initial
		case r < 18:
			inst = w.p.Initial + uint64(rng.Intn(held+1))
		default:
			inst = latestNext + 1 + uint64(rng.Intn(2)) // previous certificate not held: no proposal possible
		}
		base, baseOK := w.baseOf(inst, held)
		if !baseOK {
			base = w.bootstrap
			if held > 0 {
				base = w.heads[held-1]
			}
		}
		want := headWants[rng.Intn(len(headWants))]
		head, reorgTo := c.pickHead(base, want)
		viewA.setHead(head)
		if reorgTo != nil {
			viewA.setReorg(reorgTo, rng.Intn(2+2*min(40, head.depth-min(head.depth, base.depth))))
		}
		// hidden tipsets (EC backend errors for unknown tipsets)
		for n := range viewA.hidden {
			delete(viewA.hidden, n)
		}
		hiddenWhat := ""
		if rng.Intn(12) == 0 {
			hiddenWhat = pick(rng, "base", "head", "path", "committee")
			switch hiddenWhat {
			case "base":
				viewA.hidden[base] = true
			case "head":
				viewA.hidden[head] = true
			case "path":
				if p := parentPath(base, head); len(p) > 2 {
					viewA.hidden[p[1+rng.Intn(len(p)-2)]] = true
				} else {
					viewA.hidden[head] = true
				}
			case "committee":
				if mc, ok := w.committee(inst+1, held); ok {
					viewA.hidden[mc.at] = true
				}
			}
		}
		// clock: around "last proposed tipset is younger than one EC period"
		last := head
		if p := parentPath(base, head); len(p)-1-w.p.HeadLookback >= 1 {
			last = p[len(p)-1-w.p.HeadLookback]
		}
		delta := pick(rng, -period, 0, period-1, period, period+1, period+period/2, 2*period, 10*period, 1000*period,
			time.Duration(rng.Int63n(int64(3*period))))
		now := last.ts.Add(delta)
		clockA.SetNow(now)

		sd, ch, perr, pv := safeProposal(inA, ctx, inst)
		obs := proposalObs{inst: inst, held: held, head: viewA.lastHead, cfgHead: head, now: now, supp: sd, chain: ch, err: perr, panicV: pv,
			hidden: len(viewA.hidden) > 0, touched: viewA.touched}
		v := w.judgeProposal(obs)
		c.run.Eval(1)
		c.count("proposal_queries", 1)
		switch {
		case delta < period:
			c.count("clock[last_tipset_younger_than_period]", 1)
		case delta == period:
			c.count("clock[exactly_one_period]", 1)
		default:
			c.count("clock[older_than_period]", 1)
		}
		if obs.hidden {
			c.count("queries_with_hidden_tipsets["+hiddenWhat+"]", 1)
			if viewA.touched {
				c.count("unknown_tipset_errors_served", 1)
			}
		}
		if v.gotErr {
			c.count("proposal_errors", 1)
			_, nextOK := w.committee(inst+1, held)
			switch {
			case !baseOK:
				c.count("proposal_errors_expected[previous_certificate_not_held]", 1)
			case !nextOK:
				c.count("proposal_errors_expected[next_committee_not_derivable(lookback=1)]", 1)
			case obs.hidden:
				c.count("proposal_errors_tolerated[tipset_unknown_to_EC]", 1)
			case v.expectErr:
				c.count("proposal_errors_expected[head_behind_bootstrap_epoch]", 1)
			}
		}
		if viewA.reorged {
			c.count("reorgs_during_call", 1)
		}
		if v.judged {
			c.count("proposals_checked", 1)
			c.count("head_class["+v.rel+"]", 1)
			if v.rel == "descendant" {
				if d := head.depth - base.depth; d > w.p.HeadLookback+3 {
					c.count("head_class[descendant-far]", 1)
				} else {
					c.count("head_class[descendant-near]", 1)
				}
			}
			if inst == w.p.Initial {
				c.count("proposals_first_instance(bootstrap_base)", 1)
			}
			if v.collapse {
				c.count("base_only_collapses_observed", 1)
			}
			if v.suffixLen > 0 {
				c.count("proposals_with_suffix", 1)
				c.count("proposed_suffix_tipsets", int64(v.suffixLen))
			}
			if v.suffixLen+1 == min(protocolMaxLen, w.p.CPL) && v.suffixLen > 0 {
				c.count("proposals_at_length_bound", 1)
			}
			if v.exactKnown {
				if v.exact {
					c.count("info_exact_model_match", 1)
				} else {
					c.count("info_exact_model_mismatch", 1)
				}
			}
			if v.lookbackHit {
				c.count("info_model_head_lookback_trimmed", 1)
			}
			if v.freshHit {
				c.count("info_model_fresh_head_dropped", 1)
			}
			if v.capHit {
				c.count("info_model_length_cap_applied", 1)
			}
			if base.parent != nil && base.epoch-base.parent.epoch > 1 || len(base.children) > 0 && base.children[0].epoch-base.epoch > 1 {
				c.count("bases_adjacent_to_null_rounds", 1)
			}
			if v.rel != "base" && v.suffixLen > 0 {
				c.run.Distinct(fmt.Sprintf("%d/%d/%d", c.seed, q, inst))
			} else if v.collapse {
				c.run.Distinct(fmt.Sprintf("%d/%d/%d", c.seed, q, inst))
			}
		}
		for _, f := range v.findings {
			c.report(f, map[string]any{"query": q, "instance": inst, "held_certificates": held, "head_wanted": want,
				"head": fmt.Sprint(head), "head_returned": fmt.Sprint(viewA.lastHead), "base": fmt.Sprint(base), "relation": v.rel,
				"reorg_to": fmt.Sprint(reorgTo), "reorged": viewA.reorged, "hidden": hiddenWhat, "clock_minus_last_ts": delta.String(),
				"got_chain": chainDesc(w, ch), "got_len": ch.Len(), "error": fmt.Sprint(perr)})
			break
		}
	}
	if c.failed {
		return
	}

	// ------------------------------------------------------------ committees + two nodes
	for n := range viewA.hidden {
		delete(viewA.hidden, n)
	}
	// node B: same certificates through Put into its own store, cold inputs object,
	// different clock, different EC head (committees are a function of finality only)
	storeB, err := w.openStore(ctx, held)
	if err != nil {
		c.run.Inconclusive("harness-error")
		return
	}
	after := w.afterBootstrap()
	if len(after) == 0 {
		c.count("cases_without_tipset_after_bootstrap", 1)
		return
	}
	viewB := &ecView{t: w.t, head: after[rng.Intn(len(after))], hidden: map[*node]bool{}}
	clockB := newSetClock(w.t.genesis.Add(time.Duration(rng.Int63n(int64(1000 * period)))))
	inB := f3.VerifNewInputs(w.mf, storeB, viewB, vsig.Backend{}, clockB)
	// node C: holds only a prefix of the history
	heldC := -1
	var inC f3.VerifInputs
	if held > 0 && rng.Intn(2) == 0 {
		heldC = rng.Intn(held)
		storeC, err := w.openStore(ctx, heldC)
		if err != nil {
			c.run.Inconclusive("harness-error")
			return
		}
		viewC := &ecView{t: w.t, head: after[rng.Intn(len(after))], hidden: map[*node]bool{}}
		inC = f3.VerifNewInputs(w.mf, storeC, viewC, vsig.Backend{}, newSetClock(w.t.genesis))
	}

	L := w.p.Lookback
	insts := []uint64{w.p.Initial, w.p.Initial + L - 1, w.p.Initial + L, latestNext, latestNext + 1, latestNext + L - 1, latestNext + L, latestNext + L + 1}
	for k := 0; k < 6; k++ {
		insts = append(insts, w.p.Initial+uint64(rng.Int63n(int64(uint64(held)+L+1))))
	}
	seen := map[uint64]bool{}
	for _, inst := range insts {
		if seen[inst] || c.failed {
			continue
		}
		seen[inst] = true
		viewA.setHead(after[rng.Intn(len(after))])
		comA, errA, pvA := safeCommittee(inA, ctx, inst)
		vA := w.judgeCommittee(committeeObs{inst: inst, held: held, com: comA, err: errA, panicV: pvA, ecComplete: true}, "A")
		c.run.Eval(1)
		c.count("committee_queries", 1)
		for _, f := range vA.findings {
			c.report(f, map[string]any{"instance": inst, "held_certificates": held, "error": fmt.Sprint(errA)})
			break
		}
		if c.failed {
			return
		}
		if errA != nil {
			c.count("committee_errors_expected(cert_not_held)", 1)
		}
		if vA.judged {
			if vA.window {
				c.count("committees_checked[initial_window]", 1)
				if vA.beaconOK {
					c.count("info_window_beacon_is_bootstrap_beacon", 1)
				} else {
					c.count("info_window_beacon_differs_from_bootstrap_beacon", 1)
				}
			} else {
				c.count("committees_checked[lookback]", 1)
				if inst > latestNext {
					c.count("committees_checked[lookback,table_via_EC_fallback]", 1)
				}
				c.run.Distinct(fmt.Sprintf("%d/com/%d", c.seed, inst))
			}
		}
		// two-node comparison
		comB, errB, pvB := safeCommittee(inB, ctx, inst)
		vB := w.judgeCommittee(committeeObs{inst: inst, held: held, com: comB, err: errB, panicV: pvB, ecComplete: true}, "B")
		for _, f := range vB.findings {
			c.report(f, map[string]any{"instance": inst, "held_certificates": held, "error": fmt.Sprint(errB)})
			break
		}
		if c.failed {
			return
		}
		if (errA == nil) != (errB == nil) {
			c.report(finding{"C15 two nodes with equal certificates: one derives a committee, the other fails",
				fmt.Sprintf("instance=%d errA=%v errB=%v", inst, errA, errB)}, map[string]any{"instance": inst, "held_certificates": held})
			return
		}
		if errA == nil {
			c.count("two_node_comparisons", 1)
			if !bytes.Equal(committeeBytes(comA), committeeBytes(comB)) {
				c.report(finding{"C15 two nodes with equal certificates derive different committees (table/beacon bytes differ)",
					fmt.Sprintf("instance=%d", inst)}, map[string]any{"instance": inst, "held_certificates": held,
					"A": hex.EncodeToString(committeeBytes(comA)), "B": hex.EncodeToString(committeeBytes(comB))})
				return
			}
		}
		if inC != nil {
			comC, errC, pvC := safeCommittee(inC, ctx, inst)
			vC := w.judgeCommittee(committeeObs{inst: inst, held: heldC, com: comC, err: errC, panicV: pvC, ecComplete: true}, "C(prefix)")
			for _, f := range vC.findings {
				c.report(f, map[string]any{"instance": inst, "held_certificates": heldC, "error": fmt.Sprint(errC)})
				break
			}
			if c.failed {
				return
			}
			if vC.judged {
				c.count("committees_checked[prefix_node]", 1)
				// where both are derivable they are the same function of the same finalized history
				if errA == nil && !bytes.Equal(committeeBytes(comA), committeeBytes(comC)) {
					c.report(finding{"C15 a node holding a prefix of the certificates derives a different committee for an instance both can derive",
						fmt.Sprintf("instance=%d heldA=%d heldC=%d", inst, held, heldC)}, map[string]any{"instance": inst})
					return
				}
			}
		}
	}
}

func TestCheck(t *testing.T) {
	_ = logging.SetLogLevel("*", "error")
	_ = logging.SetLogLevel("f3", "fatal")
	run := vkit.New("C15", "main", "exploration")
	n := run.N(8000, 150000)
	run.SetRule("one case = seeded (model EC tree: 20-400 epochs, null rounds p<=0.5 plus null runs, 0-6 forks placed before/at/after/sibling-of a finalized base or nested; " +
		"manifest: finality, bootstrap epoch, initial instance 0/>0/near 1440, committee lookback 1-12, head lookback 0-5, ChainProposedLength 1-200, EC period; " +
		"history of 0-40 certificates along the main branch put into a real certstore) followed by 6-13 GetProposal queries (instance, EC head class, clock position, " +
		"optionally a reorg while the call is in flight or a tipset unknown to EC) and ~10 GetCommittee queries on three nodes. " +
		"Length rule judged: len(chain) <= min(128, ChainProposedLength) counting the base. distinct_nontrivial counts proposal queries that returned a non-empty suffix or a " +
		"base-only collapse with a non-descendant head, and look-back (non-window) committee queries.")
	run.Assume("the EC backend returns power tables in canonical order (power descending, id ascending), as Lotus does",
		"no fork branches below the bootstrap tipset (BootstrapEpoch-Finality is EC-final by F3's design assumption), so the bootstrap tipset is the same on every branch",
		"certs.MakePowerTableCID / certs.MakePowerTableDiff (CBOR + blake2b, delta algebra: property C04) are trusted for building workloads and expected CIDs",
		"certificate signatures are not verified by certstore.Put; histories carry dummy signer sets",
		"mock clock only; no wall-clock reads in the oracle")
	lo, hi := 0, n
	if run.Case >= 0 {
		lo, hi = int(run.Case), int(run.Case)+1
	}
	var mu sync.Mutex
	workers := runtime.GOMAXPROCS(0)
	vkit.Parallel(hi-lo, workers, func(k int) {
		i := lo + k
		seed := run.SubSeed(int64(i))
		rng := rand.New(rand.NewSource(seed))
		p := genParams(rng)
		w, err := buildWorld(seed, p)
		if err != nil {
			fmt.Printf("case %d: %v\n", i, err)
			run.Inconclusive("harness-error")
			return
		}
		c := &caseRun{run: run, idx: i, seed: seed, w: w, rng: rng, counts: map[string]int64{}, mu: &mu}
		c.exec()
		if i < 4 {
			run.Sample(map[string]any{"case": i, "params": p, "shape": w.shapeClass(), "tree_tipsets": len(w.t.nodes), "main_tipsets": len(w.t.main)})
		}
		for k, v := range c.counts {
			run.Count(k, v)
		}
	})

	// participant-side truncation / validation (small phase)
	participantPhase(run)

	if run.Case < 0 {
		floor := func(name string, min int64) {
			if run.Counter(name) < min {
				fmt.Printf("floor not reached: %s = %d < %d\n", name, run.Counter(name), min)
				run.Inconclusive("too-few-events")
			}
		}
		floor("proposals_checked", int64(n)*3)
		floor("proposals_with_suffix", int64(n))
		floor("base_only_collapses_observed", int64(n)/4)
		floor("committees_checked[initial_window]", int64(n))
		floor("committees_checked[lookback]", int64(n))
		floor("two_node_comparisons", int64(n)*2)
		floor("head_class[sibling]", int64(n)/50)
		floor("head_class[ancestor]", int64(n)/10)
		floor("head_class[other-branch]", int64(n)/10)
		floor("head_class[base]", int64(n)/10)
		floor("proposals_at_length_bound", int64(n)/20)
		floor("reorgs_during_call", int64(n)/20)
		floor("participant_quality_broadcasts", 50)
	}
	rc := run.Finish()
	if rc != 0 {
		t.Fail()
	}
	if rc == 2 {
		os.Exit(2)
	}
}
