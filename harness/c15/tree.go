// Package c15 is the runtime monitor for property C15 (proposals extend the
// finalized head along EC; committees derive from finality).
//
// tree.go: the harness' OWN model of an EC block tree (parent pointers, null
// rounds, forks, per-tipset power tables and beacons) and an ec.Backend view of
// it ("what one node's EC currently knows and considers its head"). Nothing in
// here is derived from go-f3's FakeEC.
package c15

import (
	"context"
	"crypto/sha256"
	"encoding/binary"
	"errors"
	"fmt"
	"math/big"
	"math/rand"
	"sort"
	"sync"
	"time"

	"github.com/filecoin-project/go-f3/certs"
	"github.com/filecoin-project/go-f3/ec"
	"github.com/filecoin-project/go-f3/gpbft"
	"github.com/filecoin-project/go-f3/verifh/vsig"
	"github.com/ipfs/go-cid"
)

// node is one (non-null) tipset of the model tree.
type node struct {
	id       int
	epoch    int64
	parent   *node
	children []*node
	branch   int // 0 = main branch, k>0 = k-th fork
	depth    int // number of ancestors
	key      []byte
	beacon   []byte
	table    gpbft.PowerEntries // canonical order: power descending, id ascending
	ts       time.Time

	cidOnce sync.Once
	ptCID   cid.Cid
}

// tableCID is CID(EC power table at this tipset), computed with the library
// function certs.MakePowerTableCID (CBOR encoding + blake2b; trusted, it is not
// part of the property).
func (n *node) tableCID() cid.Cid {
	n.cidOnce.Do(func() {
		c, err := certs.MakePowerTableCID(n.table)
		if err != nil {
			panic(err)
		}
		n.ptCID = c
	})
	return n.ptCID
}

func (n *node) String() string {
	if n == nil {
		return "<nil>"
	}
	return fmt.Sprintf("n%d@%d/b%d", n.id, n.epoch, n.branch)
}

// isAncestorOrSelf reports whether a is n or lies on n's parent path.
func (a *node) isAncestorOrSelf(n *node) bool {
	for c := n; c != nil && c.depth >= a.depth; c = c.parent {
		if c == a {
			return true
		}
	}
	return false
}

// parentPath returns base..head following PARENT pointers from head, or nil if
// base is not head or one of its ancestors.
func parentPath(base, head *node) []*node {
	if !base.isAncestorOrSelf(head) {
		return nil
	}
	out := make([]*node, head.depth-base.depth+1)
	c := head
	for i := len(out) - 1; i >= 0; i-- {
		out[i] = c
		c = c.parent
	}
	return out
}

type tree struct {
	seed    int64
	nodes   []*node
	byKey   map[string]*node
	main    []*node // main branch, genesis first
	genesis time.Time
	period  time.Duration
	tipOf   map[int]*node // branch -> last node
}

func (t *tree) lookup(k gpbft.TipSetKey) *node { return t.byKey[string(k)] }

func (t *tree) newNode(parent *node, epoch int64, branch int, table gpbft.PowerEntries) *node {
	n := &node{id: len(t.nodes), epoch: epoch, parent: parent, branch: branch, table: table}
	if parent != nil {
		n.depth = parent.depth + 1
		parent.children = append(parent.children, n)
	}
	h := sha256.New()
	h.Write([]byte("c15-tipset"))
	_ = binary.Write(h, binary.BigEndian, t.seed)
	_ = binary.Write(h, binary.BigEndian, int64(n.id))
	d := h.Sum(nil)
	// 1..3 "block CIDs" per tipset key
	blocks := 1 + int(d[0])%3
	for b := 0; b < blocks; b++ {
		n.key = append(n.key, gpbft.MakeCid(append(d, byte(b))).Bytes()...)
	}
	bh := sha256.Sum256(append([]byte("c15-beacon"), d...))
	n.beacon = bh[:]
	n.ts = t.genesis.Add(time.Duration(epoch) * t.period)
	t.nodes = append(t.nodes, n)
	t.byKey[string(n.key)] = n
	t.tipOf[branch] = n
	return n
}

// ---------------------------------------------------------------- power tables

type tableGen struct {
	rng    *rand.Rand
	nextID uint64
	change float64 // probability that a child tipset's table differs from its parent's
	big    bool
}

func canonical(es gpbft.PowerEntries) gpbft.PowerEntries {
	out := make(gpbft.PowerEntries, len(es))
	copy(out, es)
	sort.SliceStable(out, func(i, j int) bool {
		c := out[i].Power.Int.Cmp(out[j].Power.Int)
		if c != 0 {
			return c > 0
		}
		return out[i].ID < out[j].ID
	})
	return out
}

func (g *tableGen) power() gpbft.StoragePower {
	var p *big.Int
	switch g.rng.Intn(4) {
	case 0:
		p = big.NewInt(int64(1 + g.rng.Intn(5)))
	case 1:
		p = big.NewInt(int64(1 + g.rng.Intn(1_000_000)))
	case 2:
		p = new(big.Int).Lsh(big.NewInt(int64(1+g.rng.Intn(1000))), uint(g.rng.Intn(60)))
	default:
		if g.big {
			p = new(big.Int).Lsh(big.NewInt(int64(1+g.rng.Intn(1000))), uint(100+g.rng.Intn(100)))
		} else {
			p = big.NewInt(int64(1 + g.rng.Intn(1000)))
		}
	}
	return gpbft.StoragePower{Int: p}
}

func (g *tableGen) fresh(n int) gpbft.PowerEntries {
	es := make(gpbft.PowerEntries, 0, n)
	for i := 0; i < n; i++ {
		g.nextID++
		es = append(es, gpbft.PowerEntry{ID: gpbft.ActorID(g.nextID), Power: g.power(), PubKey: vsig.PubKey(0, g.nextID)})
	}
	return canonical(es)
}

// evolve returns the child's table: usually a small mutation of the parent's.
func (g *tableGen) evolve(parent gpbft.PowerEntries) gpbft.PowerEntries {
	if g.rng.Float64() >= g.change {
		return parent
	}
	es := make(gpbft.PowerEntries, len(parent))
	copy(es, parent)
	muts := 1 + g.rng.Intn(2)
	for m := 0; m < muts; m++ {
		switch k := g.rng.Intn(10); {
		case k < 3 && len(es) < 14: // join
			g.nextID++
			es = append(es, gpbft.PowerEntry{ID: gpbft.ActorID(g.nextID), Power: g.power(), PubKey: vsig.PubKey(0, g.nextID)})
		case k < 5 && len(es) > 1: // leave
			i := g.rng.Intn(len(es))
			es = append(es[:i:i], es[i+1:]...)
		case k < 9: // power change
			i := g.rng.Intn(len(es))
			np := g.power()
			if np.Int.Cmp(es[i].Power.Int) == 0 {
				np = gpbft.StoragePower{Int: new(big.Int).Add(np.Int, big.NewInt(1))}
			}
			es[i].Power = np
		default: // key rotation
			i := g.rng.Intn(len(es))
			es[i].PubKey = vsig.PubKey(uint32(1+g.rng.Intn(1<<20)), uint64(es[i].ID))
		}
	}
	return canonical(es)
}

// ---------------------------------------------------------------- EC backend view

// mTipSet is the ec.TipSet handed to the code under test.
type mTipSet struct{ n *node }

func (t mTipSet) Key() gpbft.TipSetKey { return append([]byte(nil), t.n.key...) }
func (t mTipSet) Beacon() []byte       { return append([]byte(nil), t.n.beacon...) }
func (t mTipSet) Epoch() int64         { return t.n.epoch }
func (t mTipSet) Timestamp() time.Time { return t.n.ts }
func (t mTipSet) String() string       { return t.n.String() }

var errUnknownTipset = errors.New("c15 model EC: unknown tipset")

// ecView is one node's EC: the shared tree, this node's current head, the
// tipsets it has not (yet) got, and an optional reorg that happens while a call
// is in flight (after `reorgAfter` backend calls following GetHead).
type ecView struct {
	mu     sync.Mutex
	t      *tree
	head   *node
	hidden map[*node]bool

	reorgTo    *node
	reorgAfter int
	sinceHead  int
	armed      bool

	lastHead *node // what the most recent GetHead returned
	calls    int
	reorged  bool
	touched  bool // a hidden tipset was asked for
}

var _ ec.Backend = (*ecView)(nil)

func (v *ecView) setHead(h *node) {
	v.mu.Lock()
	v.head, v.reorgTo, v.armed, v.reorged, v.lastHead, v.touched = h, nil, false, false, nil, false
	v.mu.Unlock()
}

func (v *ecView) setReorg(to *node, after int) {
	v.mu.Lock()
	v.reorgTo, v.reorgAfter, v.armed, v.sinceHead = to, after, false, 0
	v.mu.Unlock()
}

// tick is called (with mu held) at the start of every backend call.
func (v *ecView) tick() {
	v.calls++
	if v.armed && v.reorgTo != nil {
		v.sinceHead++
		if v.sinceHead > v.reorgAfter {
			v.head, v.reorgTo, v.reorged = v.reorgTo, nil, true
		}
	}
}

func (v *ecView) known(n *node) bool {
	if n == nil {
		return false
	}
	if v.hidden[n] {
		v.touched = true
		return false
	}
	return true
}

// GetTipsetByEpoch: the tipset at that epoch on the CURRENT head's chain, or, if
// that epoch is a null round, the latest non-null one before it; an error for an
// epoch beyond the head or before genesis.
func (v *ecView) GetTipsetByEpoch(_ context.Context, epoch int64) (ec.TipSet, error) {
	v.mu.Lock()
	defer v.mu.Unlock()
	v.tick()
	if epoch > v.head.epoch {
		return nil, fmt.Errorf("c15 model EC: epoch %d is beyond the head %d", epoch, v.head.epoch)
	}
	if epoch < 0 {
		return nil, fmt.Errorf("c15 model EC: negative epoch %d", epoch)
	}
	c := v.head
	for c != nil && c.epoch > epoch {
		c = c.parent
	}
	if !v.known(c) {
		return nil, errUnknownTipset
	}
	return mTipSet{c}, nil
}

func (v *ecView) GetTipset(_ context.Context, k gpbft.TipSetKey) (ec.TipSet, error) {
	v.mu.Lock()
	defer v.mu.Unlock()
	v.tick()
	n := v.t.lookup(k)
	if !v.known(n) {
		return nil, errUnknownTipset
	}
	return mTipSet{n}, nil
}

func (v *ecView) GetHead(context.Context) (ec.TipSet, error) {
	v.mu.Lock()
	defer v.mu.Unlock()
	v.tick()
	if !v.known(v.head) {
		return nil, errUnknownTipset
	}
	v.lastHead = v.head
	v.armed, v.sinceHead = true, 0
	return mTipSet{v.head}, nil
}

func (v *ecView) GetParent(_ context.Context, ts ec.TipSet) (ec.TipSet, error) {
	v.mu.Lock()
	defer v.mu.Unlock()
	v.tick()
	n := v.t.lookup(ts.Key())
	if !v.known(n) {
		return nil, errUnknownTipset
	}
	if n.parent == nil {
		return nil, errors.New("c15 model EC: genesis has no parent")
	}
	if !v.known(n.parent) {
		return nil, errUnknownTipset
	}
	return mTipSet{n.parent}, nil
}

func (v *ecView) GetPowerTable(_ context.Context, k gpbft.TipSetKey) (gpbft.PowerEntries, error) {
	v.mu.Lock()
	defer v.mu.Unlock()
	v.tick()
	n := v.t.lookup(k)
	if !v.known(n) {
		return nil, errUnknownTipset
	}
	out := make(gpbft.PowerEntries, len(n.table))
	copy(out, n.table)
	return out, nil
}

func (v *ecView) Finalize(context.Context, gpbft.TipSetKey) error {
	v.mu.Lock()
	defer v.mu.Unlock()
	v.tick()
	return nil
}
