package c01

import (
	"testing"

	"github.com/filecoin-project/go-f3/verifh/vworld"
)

func TestCheck(t *testing.T) { vworld.RunCheck(t, "C01") }
