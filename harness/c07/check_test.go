package c07

import (
	"testing"

	"github.com/filecoin-project/go-f3/verifh/vworld"
)

func TestCheck(t *testing.T) { vworld.RunCheck(t, "C07") }

// TestSolo is part "solo" of C07: one real participant against a virtual network that obeys the
// signature ledger (vworld/solo.go).
func TestSolo(t *testing.T) { vworld.RunSolo(t) }
