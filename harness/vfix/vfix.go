// Package vfix holds small fixtures shared by the validator/certificate
// property packages: committees over vsig keys, a static gpbft.Host, and
// helpers that sign votes and assemble justifications / certificates for an
// arbitrary signer subset.
package vfix

import (
	"context"
	"errors"
	"fmt"
	"math/big"
	"sort"
	"time"

	"github.com/filecoin-project/go-bitfield"
	rlepluslazy "github.com/filecoin-project/go-bitfield/rle"
	"github.com/filecoin-project/go-f3/certs"
	"github.com/filecoin-project/go-f3/gpbft"
	"github.com/filecoin-project/go-f3/verifh/vsig"
	"github.com/ipfs/go-cid"
)

const NN = gpbft.NetworkName("verif-net")

type Committee struct {
	PT     *gpbft.PowerTable
	CID    cid.Cid
	Beacon []byte
	Agg    gpbft.Aggregate
}

// NewCommittee builds a power table over vsig keys (key universe u) with the given ids/powers.
func NewCommittee(u uint32, ids []gpbft.ActorID, powers []*big.Int, beacon []byte) (*Committee, error) {
	pt := gpbft.NewPowerTable()
	es := make([]gpbft.PowerEntry, len(ids))
	for i := range ids {
		es[i] = gpbft.PowerEntry{ID: ids[i], Power: gpbft.StoragePower{Int: new(big.Int).Set(powers[i])}, PubKey: vsig.PubKey(u, uint64(ids[i]))}
	}
	if err := pt.Add(es...); err != nil {
		return nil, err
	}
	c, err := certs.MakePowerTableCID(pt.Entries)
	if err != nil {
		return nil, err
	}
	agg, err := vsig.Backend{}.Aggregate(pt.Entries.PublicKeys())
	if err != nil {
		return nil, err
	}
	return &Committee{PT: pt, CID: c, Beacon: beacon, Agg: agg}, nil
}

// Scaled computes floor(65535*p/total) per entry independently of the code under test.
func (c *Committee) Scaled() ([]int64, int64) {
	tot := new(big.Int)
	for _, e := range c.PT.Entries {
		tot.Add(tot, e.Power.Int)
	}
	out := make([]int64, len(c.PT.Entries))
	var sum int64
	for i, e := range c.PT.Entries {
		x := new(big.Int).Mul(e.Power.Int, big.NewInt(0xffff))
		out[i] = x.Div(x, tot).Int64()
		sum += out[i]
	}
	return out, sum
}

func Bitfield(idxs []int) bitfield.BitField {
	u := make([]uint64, len(idxs))
	for i, x := range idxs {
		u[i] = uint64(x)
	}
	sort.Slice(u, func(i, j int) bool { return u[i] < u[j] })
	ri, _ := rlepluslazy.RunsFromSlice(u)
	bf, _ := bitfield.NewFromIter(ri)
	return bf
}

// SignVote signs payload p with the key of table entry idx.
func (c *Committee) SignVote(idx int, p *gpbft.Payload) []byte {
	return vsig.RawSign(c.PT.Entries[idx].PubKey, p.MarshalForSigning(NN))
}

// Justify builds a justification for payload p signed by the given table indices.
func (c *Committee) Justify(p gpbft.Payload, idxs []int) *gpbft.Justification {
	s := append([]int{}, idxs...)
	sort.Ints(s)
	sigs := make([][]byte, len(s))
	for i, ix := range s {
		sigs[i] = c.SignVote(ix, &p)
	}
	agg, err := c.Agg.Aggregate(s, sigs)
	if err != nil {
		panic(err)
	}
	return &gpbft.Justification{Vote: p, Signers: Bitfield(s), Signature: agg}
}

// Message builds a validly signed message of entry idx (ticket for CONVERGE).
func (c *Committee) Message(idx int, p gpbft.Payload, j *gpbft.Justification) *gpbft.GMessage {
	e := c.PT.Entries[idx]
	mb := &gpbft.MessageBuilder{NetworkName: NN, PowerTable: c.PT, Payload: p, Justification: j}
	if p.Phase == gpbft.CONVERGE_PHASE {
		mb.BeaconForTicket = c.Beacon
	}
	msg, err := mb.Build(context.Background(), vsig.NewSigner(e.PubKey), e.ID)
	if err != nil {
		// zero scaled power: craft by hand
		m := &gpbft.GMessage{Sender: e.ID, Vote: p, Signature: vsig.RawSign(e.PubKey, p.MarshalForSigning(NN)), Justification: j}
		return m
	}
	return msg
}

// QuorumAtLeast returns table indices (largest scaled power first) whose scaled power sum is the
// smallest prefix reaching `need`; second result is the sum.
func (c *Committee) QuorumAtLeast(need int64) ([]int, int64) {
	s, _ := c.Scaled()
	var idxs []int
	var sum int64
	for i := range s {
		if s[i] == 0 {
			continue
		}
		idxs = append(idxs, i)
		sum += s[i]
		if sum >= need {
			break
		}
	}
	return idxs, sum
}

// StaticHost is a gpbft.Host with fixed committees and proposals; it records broadcasts.
type StaticHost struct {
	Committees map[uint64]*Committee
	Proposals  map[uint64]*gpbft.ECChain
	Supp       map[uint64]gpbft.SupplementalData
	Now        time.Time
	Alarm      time.Time
	Sent       []*gpbft.MessageBuilder
	Decisions  []*gpbft.Justification
	// CommitteeOutage[inst] = number of GetCommittee calls for inst that still fail (a transient
	// failure of the host, e.g. EC not caught up yet)
	CommitteeOutage map[uint64]int
}

var _ gpbft.Host = (*StaticHost)(nil)

func NewStaticHost() *StaticHost {
	return &StaticHost{Committees: map[uint64]*Committee{}, Proposals: map[uint64]*gpbft.ECChain{}, Supp: map[uint64]gpbft.SupplementalData{},
		Now: time.Unix(1_700_000_000, 0)}
}

func (h *StaticHost) GetProposal(_ context.Context, inst uint64) (*gpbft.SupplementalData, *gpbft.ECChain, error) {
	p, ok := h.Proposals[inst]
	if !ok {
		return nil, nil, fmt.Errorf("no proposal for %d", inst)
	}
	sd := h.Supp[inst]
	return &sd, p, nil
}

func (h *StaticHost) GetCommittee(_ context.Context, inst uint64) (*gpbft.Committee, error) {
	if h.CommitteeOutage[inst] > 0 {
		h.CommitteeOutage[inst]--
		return nil, errors.New("committee temporarily unavailable")
	}
	c, ok := h.Committees[inst]
	if !ok {
		return nil, errors.New("no committee")
	}
	return &gpbft.Committee{PowerTable: c.PT, Beacon: c.Beacon, AggregateVerifier: c.Agg}, nil
}
func (h *StaticHost) NetworkName() gpbft.NetworkName { return NN }
func (h *StaticHost) RequestBroadcast(mb *gpbft.MessageBuilder) error {
	h.Sent = append(h.Sent, mb)
	return nil
}
func (h *StaticHost) RequestRebroadcast(gpbft.Instant) error { return nil }
func (h *StaticHost) Time() time.Time                        { return h.Now }
func (h *StaticHost) SetAlarm(at time.Time)                  { h.Alarm = at }
func (h *StaticHost) Verify(pk gpbft.PubKey, msg, sig []byte) error {
	return vsig.Backend{}.Verify(pk, msg, sig)
}
func (h *StaticHost) Aggregate(keys []gpbft.PubKey) (gpbft.Aggregate, error) {
	return vsig.Backend{}.Aggregate(keys)
}
func (h *StaticHost) ReceiveDecision(_ context.Context, d *gpbft.Justification) (time.Time, error) {
	h.Decisions = append(h.Decisions, d)
	return h.Now.Add(time.Hour), nil
}

// Tip makes a tipset.
func Tip(epoch int64, tag string, pt cid.Cid) *gpbft.TipSet {
	key := []byte(fmt.Sprintf("tipset-key-%s-%d-padpadpadpadpadpadpad", tag, epoch))
	return &gpbft.TipSet{Epoch: epoch, Key: key, PowerTable: pt}
}

// Chain makes base+n tipsets with the given tag.
func Chain(baseEpoch int64, n int, tag string, pt cid.Cid) *gpbft.ECChain {
	base := Tip(baseEpoch, "base", pt)
	var suf []*gpbft.TipSet
	for i := 1; i <= n; i++ {
		suf = append(suf, Tip(baseEpoch+int64(i), tag, pt))
	}
	c, err := gpbft.NewChain(base, suf...)
	if err != nil {
		panic(err)
	}
	return c
}
