package c20

// C20 — certificate polling adapts its cadence to certificate production.
//
// Three oracles, all judged on mock-clock stamps and logical counts only:
//
//	progress  one deterministic polling round at a time (accessor): reported progress must equal
//	          the number of instances the subscriber's store advanced by, as an exact uint64.
//	wait      real Subscriber.run on the go-clock mock: the wait between the end of a polling
//	          round (release stamp of its last request) and the start of the next (arrival stamp
//	          of its first request) must lie in
//	          [P-e, P-e+min(e, (P-e)/2)]   (P = interval the real predictor predicts for the value
//	          the round reports, e = mock time the round's own requests took).
//	cadence   same rig, production patterns steady / bursty / stalled / resumed / alternating:
//	          steady-state spacing within [0.8T, 1.6T] and not pinned at min/max, spacing shrinks
//	          under 3 certificates per poll, grows when production stalls.

import (
	"context"
	"errors"
	"fmt"
	"math"
	"math/rand"
	"os"
	"runtime"
	"sort"
	"strings"
	"sync"
	"testing"
	"time"

	"github.com/filecoin-project/go-f3/certexchange"
	"github.com/filecoin-project/go-f3/certexchange/polling"
	"github.com/filecoin-project/go-f3/verifh/vkit"
)

func workers() int {
	w := runtime.GOMAXPROCS(0)
	if w > 16 {
		w = 16
	}
	return w
}

func TestCheck(t *testing.T) { check(t, "main", [2]int{48, 1000}, [2]int{200, 6000}) }

// TestRace is the same check at a smaller scale in a -race build (part "race"): the rig is
// concurrent (subscriber run loop, discovery, servers, stream handlers); the driver counts race
// reports whose both stacks contain go-f3 frames.
func TestRace(t *testing.T) { check(t, "race", [2]int{6, 60}, [2]int{30, 400}) }

func check(t *testing.T, part string, nProgress, nRun [2]int) {
	run := vkit.New("C20", part, "exploration")
	run.SetRule("progress: one seeded population of 1-6 real certexchange servers (healthy/lagging/failing/flaky/Byzantine) and 30 accessor-driven polling rounds with seeded production (0,1,2,3,5-8,300 certificates), local puts between and during rounds and injected latency; " +
		"run: one seeded (pattern, interval settings, production interval T, population of 1-10 servers, latency class, local-put rate) scenario of the real Subscriber.run on the mock clock; " +
		"distinct = distinct (pattern, settings, T, population, latency class) descriptions; non-trivial = at least 10 polling rounds with requests were observed (run) / rounds with and without fetched certificates were both seen (progress)")
	run.Assume("signatures are the harness's deterministic stand-in scheme (vsig)",
		"the mock clock is only ever advanced to an armed timer deadline (WaitForAllTimers) or by an injected latency while the subscriber is blocked inside that request, so request stamps are exact",
		"every scenario contains at least one healthy server, hence every polling round without local progress issues at least one request and is visible at the servers",
		"the predicted interval of a round is obtained from the real predictor (accessor) fed with the value the progress oracle saw polling rounds report for that many fetched certificates",
		"real-time yields only decide whether a scenario is stuck (counted, inconclusive), never a verdict")

	feed := progressPhase(run, run.N(nProgress[0], nProgress[1]))
	runPhase(run, feed, run.N(nRun[0], nRun[1]))

	if run.Case < 0 {
		sc := run.Counter("scenarios")
		if run.Counter("progress_values_checked") < 20*int64(run.N(nProgress[0], nProgress[1])) ||
			run.Counter("polling_rounds_observed") < 20*int64(run.N(nRun[0], nRun[1])) ||
			run.Counter("waits_checked") < 10*int64(run.N(nRun[0], nRun[1])) ||
			run.Counter("scenarios_stuck_inconclusive")*5 > sc {
			run.Inconclusive("too-few-events")
		}
	}
	rc := run.Finish()
	if rc != 0 {
		t.Fail()
	}
	if rc == 2 {
		os.Exit(2)
	}
}

// ---------------------------------------------------------------------------------------------
// population generator

func genServers(rng *rand.Rand, maxN int, T time.Duration) []serverSpec {
	n := 1 + rng.Intn(maxN)
	if rng.Intn(3) == 0 { // bias towards small populations (mocknet set-up dominates)
		n = 1 + rng.Intn(3)
	}
	specs := make([]serverSpec, n)
	byz := false
	for i := range specs {
		switch x := rng.Intn(10); {
		case x < 4:
			specs[i] = serverSpec{Kind: kindHealthy}
		case x < 7:
			lt := []time.Duration{T / 2, T, 3 * T}[rng.Intn(3)]
			specs[i] = serverSpec{Kind: kindLagging, LagTime: lt, LagCount: 1 + rng.Intn(3)}
		case x < 8:
			specs[i] = serverSpec{Kind: kindFailing}
		case x < 9:
			specs[i] = serverSpec{Kind: kindFlaky, FailProb: 0.3}
		default:
			if byz {
				specs[i] = serverSpec{Kind: kindHealthy}
			} else {
				byz = true
				specs[i] = serverSpec{Kind: []srvKind{kindByzForge, kindByzEmpty}[rng.Intn(2)]}
			}
		}
	}
	specs[rng.Intn(n)] = serverSpec{Kind: kindHealthy}
	return specs
}

func describeServers(specs []serverSpec) string {
	c := map[string]int{}
	for _, s := range specs {
		c[s.Kind.String()]++
	}
	var ks []string
	for k, v := range c {
		ks = append(ks, fmt.Sprintf("%s=%d", k, v))
	}
	sort.Strings(ks)
	return fmt.Sprintf("n=%d{%s}", len(specs), strings.Join(ks, ","))
}

// ---------------------------------------------------------------------------------------------
// progress oracle

// feedModel is what the progress oracle learnt about the value a polling round reports when the
// store advanced by k. On a correct tree it is the identity.
type feedModel struct {
	mu       sync.Mutex
	table    map[uint64]uint64
	mismatch int
	negated  int // mismatches of the form reported == -k (mod 2^64)
	other    int
}

func (f *feedModel) record(k, reported uint64) {
	f.mu.Lock()
	defer f.mu.Unlock()
	if old, ok := f.table[k]; ok && old != reported {
		f.other++ // not a function of k
	}
	f.table[k] = reported
	if k != reported {
		f.mismatch++
		if reported == -k {
			f.negated++
		} else {
			f.other++
		}
	}
}

// value returns what a polling round is expected to report for k fetched certificates.
func (f *feedModel) value(k uint64) (uint64, bool) {
	switch {
	case f.mismatch == 0:
		return k, true
	case f.other == 0 && f.negated == f.mismatch:
		return -k, true
	}
	v, ok := f.table[k]
	return v, ok && f.other == 0
}

func (f *feedModel) note() string {
	switch {
	case f.mismatch == 0:
		return ""
	case f.other == 0:
		return " [polling rounds report 2^64-k for k fetched certificates, see progress oracle]"
	}
	return " [polling rounds misreport progress, see progress oracle]"
}

func u64s(v uint64) string {
	if v > math.MaxUint64-(1<<32) {
		return fmt.Sprintf("2^64-%d", -v)
	}
	return fmt.Sprint(v)
}

func progressPhase(run *vkit.Run, n int) *feedModel {
	feed := &feedModel{table: map[uint64]uint64{}}
	body := func(i int) {
		seed := run.SubSeed(int64(i))
		rng := rand.New(rand.NewSource(seed))
		specs := genServers(rng, 6, time.Second)
		r, err := newRig(seed, specs)
		if err != nil {
			run.Count("harness_setup_errors", 1)
			return
		}
		defer r.close()
		run.Eval(1)
		run.Count("scenarios", 1)
		sub := r.newSubscriber(time.Millisecond, 100*time.Millisecond, time.Second)
		if err := polling.VerifC20Init(r.ctx, sub); err != nil {
			run.Count("harness_setup_errors", 1)
			return
		}
		for _, s := range r.servers {
			polling.VerifC20PeerSeen(sub, s.host.ID())
		}
		r.visible = func(s *server, _ time.Duration) int {
			if s.spec.Kind == kindLagging {
				return max(len(r.prod)-s.spec.LagCount, 0)
			}
			return len(r.prod)
		}
		latOn := rng.Intn(2) == 0
		r.latency = func(int) time.Duration {
			if !latOn || r.rng.Intn(3) > 0 {
				return 0
			}
			return time.Duration(r.rng.Int63n(int64(50 * time.Millisecond)))
		}
		localProb := []float64{0, 0.2, 0.5}[rng.Intn(3)]
		r.localPut = func(int) bool { return r.rng.Float64() < localProb }
		r.localAny = true
		big := rng.Intn(8) == 0
		rounds, kinds := 0, map[string]bool{}
		type rr struct {
			Produced, Between int
			Before, After     uint64
			CatchUp, Reported string
		}
		var hist []rr
		for round := 0; round < 30; round++ {
			k := []int{0, 0, 0, 1, 1, 1, 1, 2, 3, 5 + rng.Intn(4)}[rng.Intn(10)]
			if big && round == 12 {
				k = 300 // more than one maximum-length response
			}
			for j := 0; j < k; j++ {
				r.prod = append(r.prod, produced{})
			}
			// local progress between polls (GPBFT finished instances itself)
			between := 0
			if rng.Intn(6) == 0 {
				for m := 1 + rng.Intn(2); m > 0 && int(r.storeNext()) < len(r.prod); m-- {
					if err := r.clientStore.Put(r.ctx, r.gen.get(int(r.storeNext()))); err != nil {
						run.Count("harness_errors", 1)
						return
					}
					between++
				}
			}
			pn := polling.VerifC20NextInstance(sub)
			cu, err := polling.VerifC20CatchUp(r.ctx, sub)
			if err != nil {
				run.Count("harness_errors", 1)
				return
			}
			run.Count("progress_values_checked", 1)
			if want := r.storeNext() - pn; cu != want {
				run.Violation(fmt.Sprintf("progress: catch-up reported %s but the store was %s instances ahead of the poller", u64s(cu), u64s(want)),
					map[string]any{"case": i, "phase": "progress", "round": round, "servers": describeServers(specs)})
			}
			before := r.storeNext()
			var (
				reported uint64
				perr     error
			)
			done := make(chan struct{})
			go func() {
				defer close(done)
				reported, _, perr = polling.VerifC20Poll(r.ctx, sub)
			}()
			if err := r.pump(false, func() bool {
				select {
				case <-done:
					return true
				default:
					return false
				}
			}); err != nil {
				run.Count("scenarios_stuck_inconclusive", 1)
				fmt.Printf("STUCK progress case=%d round=%d requests=%d %s: %v\n", i, round, len(r.reqs), describeServers(specs), err)
				return
			}
			if perr != nil {
				run.Count("harness_errors", 1)
				return
			}
			after := r.storeNext()
			if polling.VerifC20NextInstance(sub) != after {
				// poller not caught up with the store at the end of the round: "store advance" is
				// then not what the round could have reported; not judged.
				run.Count("progress_rounds_not_judged_poller_behind_store", 1)
				continue
			}
			k64 := after - before
			rounds++
			run.Count("progress_values_checked", 1)
			run.Count("progress_polling_rounds", 1)
			if k64 == 0 {
				run.Count("progress_rounds_nothing_fetched", 1)
				kinds["0"] = true
			} else {
				run.Count("progress_rounds_k_fetched", 1)
				run.Count("progress_certificates_fetched", int64(k64))
				kinds[">0"] = true
			}
			feed.record(k64, reported)
			hist = append(hist, rr{k, between, before, after, u64s(cu), u64s(reported)})
			if reported != k64 {
				sig := "progress: polling round reported less progress than the store advanced by"
				if reported > k64 {
					sig = "progress: polling round reported more progress than the store advanced by"
				}
				if k64 > 0 && reported == -k64 {
					sig = "progress: polling round fetched k>0 certificates but reported progress = 2^64-k (before-after instead of after-before; unsigned underflow)"
				} else if k64 == 0 {
					sig = "progress: polling round fetched nothing but reported non-zero progress"
				}
				run.Violation(sig, map[string]any{"case": i, "phase": "progress", "round": round, "k": k64, "reported": u64s(reported),
					"servers": describeServers(specs), "history": hist})
			}
		}
		run.Count("requests_observed_at_servers", int64(len(r.reqs)))
		run.Count("progress_requests_answered_genuine_then_forged", int64(r.goodForge))
		if len(kinds) == 2 {
			run.Distinct(fmt.Sprintf("progress|%s|lat=%v|local=%.1f|big=%v", describeServers(specs), latOn, localProb, big))
		}
		if i < 2 {
			run.Sample(map[string]any{"case": i, "phase": "progress", "servers": describeServers(specs), "rounds": rounds, "requests": len(r.reqs), "tail": hist[max(len(hist)-4, 0):]})
		}
	}
	if run.Case >= 0 {
		if int(run.Case) < n {
			body(int(run.Case))
		} else {
			// replaying a run scenario: learn what polling rounds report from a few populations
			vkit.Parallel(min(n, 4), workers(), body)
		}
		return feed
	}
	vkit.Parallel(n, workers(), body)
	return feed
}

// ---------------------------------------------------------------------------------------------
// wait + cadence oracles on the real run loop

type phase struct {
	Kind  string        `json:"kind"` // steady | burst | stall
	T     time.Duration `json:"T_ns,omitempty"`
	Polls int           `json:"polls"`
}

type scenario struct {
	Case     int           `json:"case"`
	Seed     int64         `json:"seed"`
	Pattern  string        `json:"pattern"`
	Family   int           `json:"family"`
	T        time.Duration `json:"T_ns"`
	Min      time.Duration `json:"min_ns"`
	Init     time.Duration `json:"init_ns"`
	Max      time.Duration `json:"max_ns"`
	Phases   []phase       `json:"phases"`
	Lat      string        `json:"latency_class"`
	Local    float64       `json:"local_put_prob"`
	Servers  []serverSpec  `json:"-"`
	ServersD string        `json:"servers"`
}

var familyNames = []string{"(1ms,100ms,1s)", "(T/4,T,4T)", "(T,T,T)", "(T/2,4T,8T)"}

func genScenario(i int, seed int64) scenario {
	rng := rand.New(rand.NewSource(seed))
	sc := scenario{Case: i, Seed: seed}
	// spread patterns and families evenly over the case index, the rest is seeded
	sc.Pattern = []string{"steady", "bursty", "stalled", "resumed", "alternating", "longstall"}[i%6]
	sc.Family = (i / 6) % 4
	switch sc.Family {
	case 0:
		// production intervals from a few times the minimum (1ms) up to near the maximum (1s)
		sc.T = []time.Duration{7, 12, 30, 60, 100, 150, 250, 400}[rng.Intn(8)] * time.Millisecond
		sc.Min, sc.Init, sc.Max = time.Millisecond, 100*time.Millisecond, time.Second
	default:
		sc.T = []time.Duration{100 * time.Millisecond, time.Second, 30 * time.Second}[rng.Intn(3)]
		switch sc.Family {
		case 1:
			sc.Min, sc.Init, sc.Max = sc.T/4, sc.T, 4*sc.T
		case 2:
			sc.Min, sc.Init, sc.Max = sc.T, sc.T, sc.T
		case 3:
			sc.Min, sc.Init, sc.Max = sc.T/2, 4*sc.T, 8*sc.T
		}
	}
	T := sc.T
	switch sc.Pattern {
	case "steady":
		sc.Phases = []phase{{"steady", T, 60}}
	case "bursty":
		sc.Phases = []phase{{"steady", T, 25}, {"burst", 0, 12}}
	case "stalled":
		sc.Phases = []phase{{"steady", T, 25}, {"stall", 0, 7}}
	case "longstall":
		// nothing is produced for far longer than any back-off needs to reach its cap
		sc.Phases = []phase{{"steady", T, 12}, {"stall", 0, 45}}
	case "resumed":
		sc.Phases = []phase{{"steady", T, 15}, {"stall", 0, 5}, {"steady", T, 60}}
	case "alternating":
		T2 := 2 * T
		if sc.Family == 1 && rng.Intn(2) == 0 {
			T2 = T / 2
		}
		if sc.Family == 0 {
			T2 = []time.Duration{T / 2, 2 * T}[rng.Intn(2)]
		}
		sc.Phases = []phase{{"steady", T, 60}, {"steady", T2, 60}, {"steady", T, 60}}
	}
	sc.Lat = []string{"none", "small", "small", "large"}[rng.Intn(4)]
	sc.Local = []float64{0, 0, 0.15}[rng.Intn(3)]
	sc.Servers = genServers(rng, 10, T)
	sc.ServersD = describeServers(sc.Servers)
	return sc
}

func (sc scenario) desc() string {
	return fmt.Sprintf("%s|%s|T=%s|%s|lat=%s", sc.Pattern, familyNames[sc.Family], sc.T, sc.ServersD, sc.Lat)
}

type roundRec struct {
	Round     int           `json:"round"`
	Phase     int           `json:"phase"`
	PollTime  time.Duration `json:"poll_ns"`
	End       time.Duration `json:"end_ns"`
	Reqs      int           `json:"reqs"`
	StoreNext uint64        `json:"store_next"`
	Local     bool          `json:"local,omitempty"`
}

// execute runs one scenario and returns the visible polling rounds.
func execute(sc scenario) (rounds []roundRec, nreq int, err error) {
	// libp2p's identify occasionally answers before its protocol snapshot contains the handler
	// registered just before (mocknet, seen in ~0.5% of set-ups); the peer is then never
	// discovered. That is rig set-up, not the subject: set the same scenario up again.
	for attempt := 0; attempt < 4; attempt++ {
		rounds, nreq, err = executeOnce(sc)
		if !errors.Is(err, errSetupIdentify) {
			break
		}
	}
	return rounds, nreq, err
}

var errSetupIdentify = fmt.Errorf("%w: identify did not complete", errStuck)

func executeOnce(sc scenario) (rounds []roundRec, nreq int, err error) {
	r, err := newRig(sc.Seed, sc.Servers)
	if err != nil {
		return nil, 0, fmt.Errorf("setup: %w", err)
	}
	defer r.close()
	sub := r.newSubscriber(sc.Min, sc.Init, sc.Max)
	if err := sub.Start(r.ctx); err != nil {
		return nil, 0, fmt.Errorf("setup: %w", err)
	}
	// connect and wait (bounded) until identify told the client which peers serve the protocol
	for _, s := range r.servers {
		if _, err := r.mn.ConnectPeers(r.clientHost.ID(), s.host.ID()); err != nil {
			return nil, 0, fmt.Errorf("setup: %w", err)
		}
	}
	proto := certexchange.FetchProtocolName(netName)
	deadline := time.Now().Add(4 * time.Second)
	for si, s := range r.servers {
		for {
			if p, err := r.clientHost.Peerstore().FirstSupportedProtocol(s.host.ID(), proto); err == nil && p == proto {
				break
			}
			if time.Now().After(deadline) {
				return nil, 0, fmt.Errorf("%w for server %d (%s)", errSetupIdentify, si, s.spec.Kind)
			}
			time.Sleep(time.Millisecond)
		}
	}
	time.Sleep(20 * time.Millisecond) // let the discovery events reach the (idle) run loop

	// watchdog: a run loop that keeps re-arming without ever issuing a request would keep
	// WaitForAllTimers busy; stopping the subscriber ends that. Inconclusive, never a verdict.
	wd := time.AfterFunc(90*time.Second, func() { r.cancel(); _ = sub.Stop(context.Background()) })
	defer wd.Stop()

	var (
		phaseIdx   = 0
		phasePolls = 0
		nextProd   = time.Duration(math.MaxInt64)
		curRound   = -1
		finished   = false
	)
	enter := func(now time.Duration) {
		phasePolls = 0
		nextProd = time.Duration(math.MaxInt64)
		if ph := sc.Phases[phaseIdx]; ph.Kind == "steady" {
			nextProd = now + ph.T
		}
	}
	enter(0)
	r.visible = func(s *server, now time.Duration) int {
		// time-based production, materialised lazily: everything due up to `now` exists
		for nextProd <= now {
			r.prod = append(r.prod, produced{at: nextProd})
			nextProd += sc.Phases[phaseIdx].T
		}
		n := s.have
		for n < len(r.prod) && r.prod[n].at+s.spec.LagTime <= now {
			n++
		}
		return n
	}
	lrng := rand.New(rand.NewSource(sc.Seed ^ 0x1a7))
	r.latency = func(int) time.Duration {
		switch sc.Lat {
		case "small":
			return time.Duration(lrng.Int63n(int64(sc.T/64) + 1))
		case "large":
			if lrng.Intn(3) == 0 {
				return 0
			}
			return time.Duration(lrng.Int63n(int64(sc.T) + 1))
		}
		return 0
	}
	r.localPut = func(int) bool { return sc.Local > 0 && lrng.Float64() < sc.Local }
	r.onGate = func(_ int, round int, now time.Duration) {
		if round == curRound || finished {
			return
		}
		curRound = round
		phasePolls++
		if phasePolls > sc.Phases[phaseIdx].Polls {
			phaseIdx++
			if phaseIdx == len(sc.Phases) {
				phaseIdx--
				finished = true
				return
			}
			enter(now)
			phasePolls = 1
		}
		if sc.Phases[phaseIdx].Kind == "burst" {
			for j := 0; j < 3; j++ {
				r.prod = append(r.prod, produced{at: now})
			}
		}
		rounds = append(rounds, roundRec{Round: round, Phase: phaseIdx, PollTime: now, End: now, StoreNext: r.storeNext()})
	}
	if err := r.pump(true, func() bool { return finished }); err != nil {
		return rounds, len(r.reqs), err
	}
	// fold the request log into the rounds
	idx := map[int]int{}
	for i, rd := range rounds {
		idx[rd.Round] = i
	}
	for _, q := range r.reqs {
		if i, ok := idx[q.Round]; ok {
			rounds[i].Reqs++
			rounds[i].End = q.Release
			rounds[i].Local = rounds[i].Local || q.Local
		}
	}
	return rounds, len(r.reqs), nil
}

func meanSpacing(rounds []roundRec, from, to int) time.Duration { // spacings between polls from..to (indices into rounds)
	return (rounds[to].PollTime - rounds[from].PollTime) / time.Duration(to-from)
}

func runPhase(run *vkit.Run, feed *feedModel, n int) {
	note := feed.note()
	body := func(i int) {
		sc := genScenario(i, run.SubSeed(int64(1_000_000+i)))
		run.Breadcrumb(fmt.Sprintf("case=%d run-scenario %s", i, sc.desc()))
		rounds, nreq, err := execute(sc)
		run.Eval(1)
		run.Count("scenarios", 1)
		run.Count("requests_observed_at_servers", int64(nreq))
		run.Count("polling_rounds_observed", int64(len(rounds)))
		if err != nil {
			if errors.Is(err, errStuck) {
				run.Count("scenarios_stuck_inconclusive", 1)
				fmt.Printf("STUCK run case=%d rounds=%d requests=%d %s: %v\n", 1_000_000+i, len(rounds), nreq, sc.desc(), err)
			} else {
				run.Count("harness_errors", 1)
			}
			return
		}
		if len(rounds) >= 10 {
			run.Distinct(sc.desc())
			run.Count("configurations_pattern_"+sc.Pattern, 1)
			run.Count("configurations_settings_"+familyNames[sc.Family], 1)
		}
		wit := func(extra map[string]any) map[string]any {
			m := map[string]any{"case": 1_000_000 + i, "phase": "run", "scenario": sc, "rounds": rounds}
			for k, v := range extra {
				m[k] = v
			}
			return m
		}
		checkWaits(run, sc, rounds, feed, wit)
		if sc.Lat != "large" {
			checkCadence(run, sc, rounds, note, wit)
		} else {
			run.Count("cadence_not_judged_large_latency", 1)
		}
		if i < 4 {
			sp := []string{}
			for j := max(len(rounds)-6, 1); j < len(rounds); j++ {
				sp = append(sp, (rounds[j].PollTime - rounds[j-1].PollTime).String())
			}
			run.Sample(map[string]any{"case": 1_000_000 + i, "phase": "run", "scenario": sc.desc(), "rounds": len(rounds), "requests": nreq, "last_spacings": sp})
		}
	}
	if run.Case >= 0 {
		if run.Case >= 1_000_000 {
			body(int(run.Case - 1_000_000))
		}
		return
	}
	vkit.Parallel(n, workers(), body)
}

// checkWaits: for consecutive visible rounds r, r+1 the wait between the end of r and the start
// of r+1 must be the predicted interval less the elapsed request time, extended by at most
// min(request time, half of that).
func checkWaits(run *vkit.Run, sc scenario, rounds []roundRec, feed *feedModel, wit func(map[string]any) map[string]any) {
	if len(rounds) == 0 {
		return
	}
	pred := polling.VerifC20NewPredictor(sc.Min, sc.Init, sc.Max)
	// rounds before the first visible one (none expected: discovery completes first) saw no peers
	for k := 1; k < rounds[0].Round; k++ {
		pred.Update(0)
	}
	for j := 0; j+1 < len(rounds); j++ {
		a, b := rounds[j], rounds[j+1]
		k := b.StoreNext - a.StoreNext
		fed, ok := feed.value(k)
		if !ok {
			run.Count("waits_not_judged_unknown_reported_progress", int64(len(rounds)-1-j))
			return
		}
		P := pred.Update(fed)
		if b.Round != a.Round+1 {
			// polling rounds without any request in between (no peer suggested): they reported 0
			for x := a.Round + 1; x < b.Round; x++ {
				pred.Update(0)
			}
			run.Count("waits_not_judged_invisible_round_between", 1)
			continue
		}
		e := a.End - a.PollTime
		base := max(P-e, 0)
		lo, hi := base, base+min(e, base/2)
		W := b.PollTime - a.End
		run.Count("waits_checked", 1)
		if e > 0 {
			run.Count("waits_checked_with_request_latency", 1)
		}
		if a.Local {
			run.Count("waits_checked_round_with_local_progress", 1)
		}
		if W >= lo && W <= hi {
			continue
		}
		var sig string
		switch {
		case W < lo:
			sig = "wait: next poll came earlier than predicted interval minus the time the round's requests took"
		case W == base+max(e, base/2) && e < base/2:
			sig = "wait: extended by half of the remaining interval although the round's own requests took less (extension = max(request time, half) instead of at most half)"
		case W == base+max(e, base/2) && a.Local:
			sig = "wait: extended by the full request time although that exceeds half of the remaining interval (extension = max(request time, half) instead of at most half)"
		default:
			sig = "wait: next poll came later than predicted interval minus elapsed plus min(request time, half of that)"
		}
		run.Violation(sig, wit(map[string]any{"round_index": j, "predicted_ns": P, "elapsed_ns": e, "wait_ns": W, "allowed_ns": []time.Duration{lo, hi}, "progress": k, "fed": u64s(fed)}))
		if run.Violations() > 50 {
			return
		}
	}
}

func strictlyInside(sc scenario, T time.Duration) bool { return sc.Min < T && T < sc.Max }

// checkCadence judges the spacing of visible polling rounds per phase.
func checkCadence(run *vkit.Run, sc scenario, rounds []roundRec, note string, wit func(map[string]any) map[string]any) {
	// index ranges of phases
	type span struct{ first, last int }
	spans := make([]span, len(sc.Phases))
	for p := range spans {
		spans[p] = span{-1, -1}
	}
	for i, rd := range rounds {
		if spans[rd.Phase].first < 0 {
			spans[rd.Phase].first = i
		}
		spans[rd.Phase].last = i
	}
	for p, ph := range sc.Phases {
		sp := spans[p]
		if sp.first < 0 {
			continue
		}
		switch ph.Kind {
		case "steady":
			if ph.Polls < 60 || sp.last-sp.first+1 < 60 {
				continue
			}
			// last 20 of the 60 polls of this phase
			lo, hi := sp.last-20, sp.last
			mean := meanSpacing(rounds, lo, hi)
			allMin, allMax := true, true
			for j := lo; j < hi; j++ {
				// spacing less the time the round's own requests took = what the timer contributed
				s := rounds[j+1].PollTime - rounds[j].PollTime - (rounds[j].End - rounds[j].PollTime)
				if s > sc.Min+sc.Min/2 {
					allMin = false
				}
				if s < sc.Max-(rounds[j].End-rounds[j].PollTime) {
					allMax = false
				}
			}
			run.Count("cadence_steady_phases_checked", 1)
			inside := strictlyInside(sc, ph.T)
			ratio := float64(mean) / float64(ph.T)
			switch {
			case inside && allMin:
				run.Violation("cadence: steady production of one certificate per T (min<T<max): steady-state poll spacing collapsed to the minimum interval (every one of the last 20 waits <= 1.5*min)"+note,
					wit(map[string]any{"phase_index": p, "mean_spacing_ns": mean, "T_ns": ph.T, "ratio": ratio}))
			case inside && allMax:
				run.Violation("cadence: steady production of one certificate per T (min<T<max): steady-state poll spacing pinned at the maximum interval"+note,
					wit(map[string]any{"phase_index": p, "mean_spacing_ns": mean, "T_ns": ph.T, "ratio": ratio}))
			case !(sc.Min <= ph.T && ph.T <= sc.Max):
				// production interval outside what the settings allow the subscriber to follow
				run.Count("cadence_steady_band_not_applicable_T_outside_min_max", 1)
			case ratio < 0.8:
				run.Violation("cadence: steady production of one certificate per T: steady-state poll spacing below 0.8*T"+note,
					wit(map[string]any{"phase_index": p, "mean_spacing_ns": mean, "T_ns": ph.T, "ratio": ratio}))
			case ratio > 1.6:
				run.Violation("cadence: steady production of one certificate per T: steady-state poll spacing above 1.6*T"+note,
					wit(map[string]any{"phase_index": p, "mean_spacing_ns": mean, "T_ns": ph.T, "ratio": ratio}))
			}
		case "burst":
			// spacing at the end of the preceding steady phase vs the end of the burst phase
			if p == 0 || sp.last-sp.first+1 < 10 || spans[p-1].first < 0 || spans[p-1].last-spans[p-1].first < 6 {
				continue
			}
			prev := meanSpacing(rounds, spans[p-1].last-5, spans[p-1].last)
			if prev <= sc.Min+sc.Min/2 {
				run.Count("cadence_burst_not_judged_already_at_min", 1)
				continue
			}
			cur := meanSpacing(rounds, sp.last-5, sp.last)
			run.Count("cadence_burst_phases_checked", 1)
			if cur >= prev {
				run.Violation("cadence: poll spacing did not shrink while 3 certificates appeared per poll"+note,
					wit(map[string]any{"phase_index": p, "spacing_before_ns": prev, "spacing_after_ns": cur}))
			}
		case "stall":
			if p == 0 || sp.last-sp.first+1 < 4 || spans[p-1].first < 0 || spans[p-1].last-spans[p-1].first < 6 {
				continue
			}
			prev := meanSpacing(rounds, spans[p-1].last-5, spans[p-1].last)
			last := rounds[sp.last].PollTime - rounds[sp.last-1].PollTime
			run.Count("cadence_stall_phases_checked", 1)
			if last <= prev {
				run.Violation("cadence: poll spacing did not grow while production was stalled"+note,
					wit(map[string]any{"phase_index": p, "spacing_before_ns": prev, "last_stalled_spacing_ns": last}))
			}
			// "it backs off when none appear": while nothing is received the pure wait (end of a
			// round's requests to the next poll) never shrinks
			shrunk := -1
			for j := sp.first + 2; j+1 <= sp.last; j++ {
				w0 := rounds[j].PollTime - rounds[j-1].End
				w1 := rounds[j+1].PollTime - rounds[j].End
				run.Count("cadence_stall_wait_pairs_checked", 1)
				if rounds[j+1].StoreNext != rounds[sp.first+1].StoreNext {
					break // something arrived after all (lagging server): not a stall any more
				}
				if float64(w1) < 0.99*float64(w0) {
					shrunk = j
					break
				}
			}
			if shrunk >= 0 {
				run.Violation("cadence: wait before the next poll shrank during a stall although nothing was received"+note,
					wit(map[string]any{"phase_index": p, "stalled_poll": shrunk - sp.first, "wait_before_ns": rounds[shrunk].PollTime - rounds[shrunk-1].End, "wait_after_ns": rounds[shrunk+1].PollTime - rounds[shrunk].End}))
			}
		}
	}
}
