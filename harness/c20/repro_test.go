package c20

// Standalone minimal reproductions of the two C20 defects found by reading
// (DESIGN.md section 5, #8 and #9). Not part of the registered check; run with
//
//	cd /verif/harness && go test -tags verif -overlay /verif/.overlay.json -run 'TestRepro' -v ./c20
//
// Each fails on a tree that has the defect and passes on a tree with the fix from /verif/fixes.

import (
	"testing"
	"time"

	"github.com/filecoin-project/go-f3/certexchange/polling"
)

// #8: one healthy server holding exactly one certificate, one polling round.
// The store advances by 1; `poll` must report 1.
func TestReproProgressOperands(t *testing.T) {
	r, err := newRig(1, []serverSpec{{Kind: kindHealthy}})
	if err != nil {
		t.Fatal(err)
	}
	defer r.close()
	sub := r.newSubscriber(time.Millisecond, 100*time.Millisecond, time.Second)
	if err := polling.VerifC20Init(r.ctx, sub); err != nil {
		t.Fatal(err)
	}
	polling.VerifC20PeerSeen(sub, r.servers[0].host.ID())
	r.prod = append(r.prod, produced{})
	r.visible = func(*server, time.Duration) int { return len(r.prod) }
	before := r.storeNext()
	var reported uint64
	done := make(chan struct{})
	go func() { defer close(done); reported, _, err = polling.VerifC20Poll(r.ctx, sub) }()
	if perr := r.pump(false, func() bool {
		select {
		case <-done:
			return true
		default:
			return false
		}
	}); perr != nil || err != nil {
		t.Fatal(perr, err)
	}
	after := r.storeNext()
	t.Logf("store next instance before=%d after=%d; poll reported progress=%d (%s)", before, after, reported, u64s(reported))
	if reported != after-before {
		t.Fatalf("poll reported %s, store advanced by %d", u64s(reported), after-before)
	}
}

// #9 (and the visible consequence of #8): real Subscriber.run on the mock clock against one
// healthy zero-latency server that gains one certificate per second.
//
//	settings (1s,1s,1s): predicted interval is 1s whatever the progress; requests take no mock
//	time, so every wait must be exactly 1s (extension <= min(0, half) = 0).
func TestReproWaitOffset(t *testing.T) {
	T := time.Second
	sc := scenario{Seed: 2, Pattern: "steady", Family: 2, T: T, Min: T, Init: T, Max: T, Phases: []phase{{"steady", T, 12}}, Lat: "none",
		Servers: []serverSpec{{Kind: kindHealthy}}}
	rounds, _, err := execute(sc)
	if err != nil {
		t.Fatal(err)
	}
	for j := 1; j < len(rounds); j++ {
		w := rounds[j].PollTime - rounds[j-1].End
		e := rounds[j-1].End - rounds[j-1].PollTime
		t.Logf("poll %d at %s: waited %s after a round whose requests took %s", j, rounds[j].PollTime, w, e)
		if j > 1 && w != T-e {
			t.Errorf("wait %s, expected predicted interval %s - elapsed %s (+ at most min(request time %s, half))", w, T, e, e)
		}
	}
}

// Visible consequence of #8 through the public API only: settings (1ms,100ms,1s), one certificate
// per 100ms. The subscriber should keep polling about every 100ms.
func TestReproCadenceCollapse(t *testing.T) {
	T := 100 * time.Millisecond
	sc := scenario{Seed: 3, Pattern: "steady", Family: 0, T: T, Min: time.Millisecond, Init: T, Max: time.Second, Phases: []phase{{"steady", T, 60}}, Lat: "none",
		Servers: []serverSpec{{Kind: kindHealthy}}}
	rounds, nreq, err := execute(sc)
	if err != nil {
		t.Fatal(err)
	}
	n := len(rounds)
	mean := meanSpacing(rounds, n-21, n-1)
	certsSeen := rounds[n-1].StoreNext
	t.Logf("%d polls, %d requests for %d certificates; mean spacing of the last 20 polls = %s (T = %s)", n, nreq, certsSeen, mean, T)
	if mean < T*8/10 || mean > T*16/10 {
		t.Fatalf("steady-state spacing %s outside [0.8T, 1.6T]", mean)
	}
}
