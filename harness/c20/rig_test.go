package c20

// Rig shared by the three C20 oracles: mocknet hosts, real certexchange.Server instances behind
// a gating stream-handler wrapper, real certstores, the go-clock mock, a vsig certificate
// generator, and a driver that only ever advances the mock clock to an armed timer deadline
// (clk.WaitForAllTimers) or by an injected request latency while the subscriber is provably
// blocked inside that request (clk.Add at the gate). All stamps are mock-clock values.

import (
	"context"
	"errors"
	"fmt"
	"math/rand"
	"sync"
	"time"

	"github.com/filecoin-project/go-bitfield"
	"github.com/ipfs/go-datastore"
	ds_sync "github.com/ipfs/go-datastore/sync"
	"github.com/libp2p/go-libp2p/core/host"
	"github.com/libp2p/go-libp2p/core/network"
	"github.com/libp2p/go-libp2p/core/protocol"
	mocknetwork "github.com/libp2p/go-libp2p/p2p/net/mock"

	"github.com/filecoin-project/go-f3/certexchange"
	"github.com/filecoin-project/go-f3/certexchange/polling"
	"github.com/filecoin-project/go-f3/certs"
	"github.com/filecoin-project/go-f3/certstore"
	"github.com/filecoin-project/go-f3/gpbft"
	"github.com/filecoin-project/go-f3/internal/clock"
	"github.com/filecoin-project/go-f3/verifh/vsig"
)

const netName gpbft.NetworkName = "verif-c20"

// ---------------------------------------------------------------------------------------------
// certificate generator (vsig stand-in signatures, constant 4-member equal-power table)

type certGen struct {
	mu    sync.Mutex
	pt    gpbft.PowerEntries
	supp  gpbft.SupplementalData
	base  *gpbft.TipSet
	agg   gpbft.Aggregate
	rng   *rand.Rand
	certs []*certs.FinalityCertificate
}

func newCertGen(seed int64) (*certGen, error) {
	g := &certGen{rng: rand.New(rand.NewSource(seed))}
	for i := 0; i < 4; i++ {
		g.pt = append(g.pt, gpbft.PowerEntry{ID: gpbft.ActorID(i + 1), Power: gpbft.NewStoragePower(100), PubKey: vsig.PubKey(20, uint64(i))})
	}
	ptCid, err := certs.MakePowerTableCID(g.pt)
	if err != nil {
		return nil, err
	}
	g.supp = gpbft.SupplementalData{PowerTable: ptCid}
	g.base = &gpbft.TipSet{Epoch: 10, Key: g.key(), PowerTable: ptCid}
	g.agg, err = vsig.Backend{}.Aggregate(g.pt.PublicKeys())
	return g, err
}

func (g *certGen) key() gpbft.TipSetKey {
	k := make([]byte, 38)
	g.rng.Read(k)
	return k
}

// get returns certificate number i (generating up to it).
func (g *certGen) get(i int) *certs.FinalityCertificate {
	g.mu.Lock()
	defer g.mu.Unlock()
	for len(g.certs) <= i {
		inst := uint64(len(g.certs))
		chain, err := gpbft.NewChain(g.base)
		if err != nil {
			panic(err)
		}
		for n := 1 + g.rng.Intn(3); n > 0; n-- {
			chain = chain.Extend(g.key())
		}
		payload := gpbft.Payload{Instance: inst, Round: 0, Phase: gpbft.DECIDE_PHASE, SupplementalData: g.supp, Value: chain}
		msg := payload.MarshalForSigning(netName)
		// three of four equal-power members: a strong quorum; rotate who is left out
		skip := int(inst % 4)
		var mask []int
		var idx []uint64
		var sigs [][]byte
		for s := 0; s < 4; s++ {
			if s == skip {
				continue
			}
			mask = append(mask, s)
			idx = append(idx, uint64(s))
			sigs = append(sigs, vsig.RawSign(g.pt[s].PubKey, msg))
		}
		sig, err := g.agg.Aggregate(mask, sigs)
		if err != nil {
			panic(err)
		}
		j := &gpbft.Justification{Vote: payload, Signers: bitfield.NewFromSet(idx), Signature: sig}
		c, err := certs.NewFinalityCertificate(nil, j)
		if err != nil {
			panic(err)
		}
		g.certs = append(g.certs, c)
		g.base = chain.Head()
	}
	return g.certs[i]
}

// ---------------------------------------------------------------------------------------------
// servers

type srvKind int

const (
	kindHealthy  srvKind = iota // serves everything produced
	kindLagging                 // serves what was produced some time / some certificates ago
	kindFailing                 // resets every stream
	kindFlaky                   // resets a seeded fraction of streams, otherwise healthy
	kindByzForge                // answers with a certificate whose aggregate signature is corrupted
	kindByzEmpty                // claims to have more but sends nothing
)

func (k srvKind) String() string {
	return [...]string{"healthy", "lagging", "failing", "flaky", "byz-forge", "byz-empty"}[k]
}

type serverSpec struct {
	Kind     srvKind
	LagTime  time.Duration // run rig: serves certificates produced at least this long ago
	LagCount int           // poll rig: does not have the newest LagCount certificates
	FailProb float64       // flaky
}

type action int

const (
	actServe action = iota
	actReset
	actByzForge
	actByzGoodForge // a genuine certificate followed by a forged successor: the poll ends Illegal after contributing one
	actByzEmpty
)

type gateEv struct {
	srv     int
	release chan action
}

type server struct {
	spec  serverSpec
	host  host.Host
	store *certstore.Store
	srv   *certexchange.Server
	have  int // number of produced certificates already put into store
}

type reqRec struct {
	Srv     int           `json:"srv"`
	Kind    string        `json:"kind"`
	Round   int           `json:"round"`
	Arrive  time.Duration `json:"arrive_ns"`
	Release time.Duration `json:"release_ns"`
	Act     int           `json:"act"`
	Local   bool          `json:"local_put,omitempty"`
}

type produced struct {
	at time.Duration // mock time (run rig) at which it becomes available on a lag-0 server
}

type rig struct {
	goodForge int // requests answered with a genuine certificate followed by a forged one
	localAny bool // local puts also of certificates the polled server does not hold
	ctx      context.Context
	cancel   context.CancelFunc
	clk      *clock.Mock
	epoch    time.Time
	mn       mocknetwork.Mocknet
	rng      *rand.Rand
	gen      *certGen

	clientHost  host.Host
	clientStore *certstore.Store
	sub         *polling.Subscriber

	servers []*server
	gate    chan *gateEv
	prod    []produced
	reqs    []reqRec

	// hooks set by the driving oracle
	latency  func(srv int) time.Duration            // injected request latency (mock clock)
	visible  func(s *server, now time.Duration) int // how many produced certificates server s has at `now`
	onGate   func(srv int, round int, now time.Duration)
	localPut func(srv int) bool // whether to copy the next certificate into the client's own store while the request to srv is in flight

	stopOnce sync.Once
}

// wrapHost makes the real certexchange.Server register its handler behind the gate.
type wrapHost struct {
	host.Host
	r   *rig
	idx int
}

func (w *wrapHost) SetStreamHandler(pid protocol.ID, h network.StreamHandler) {
	w.Host.SetStreamHandler(pid, func(s network.Stream) {
		switch w.r.await(w.idx) {
		case actServe:
			h(s)
		default:
			_ = s.Reset()
		}
	})
}

// await announces a request at the gate and blocks until the driver releases it.
func (r *rig) await(idx int) action {
	ev := &gateEv{srv: idx, release: make(chan action, 1)}
	select {
	case r.gate <- ev:
	case <-r.ctx.Done():
		return actReset
	}
	select {
	case a := <-ev.release:
		return a
	case <-r.ctx.Done():
		return actReset
	}
}

func (r *rig) now() time.Duration { return r.clk.Now().Sub(r.epoch) }

func (r *rig) storeNext() uint64 {
	if l := r.clientStore.Latest(); l != nil {
		return l.GPBFTInstance + 1
	}
	return 0
}

func newRig(seed int64, specs []serverSpec) (*rig, error) {
	ctx, cancel := context.WithCancel(context.Background())
	ctx, clk := clock.WithMockClock(ctx)
	r := &rig{ctx: ctx, cancel: cancel, clk: clk, epoch: clk.Now(), rng: rand.New(rand.NewSource(seed)), gate: make(chan *gateEv)}
	var err error
	if r.gen, err = newCertGen(seed ^ 0x5a5a); err != nil {
		cancel()
		return nil, err
	}
	r.mn = mocknetwork.New()
	if r.clientHost, err = r.mn.GenPeer(); err != nil {
		r.close()
		return nil, err
	}
	if r.clientStore, err = certstore.CreateStore(ctx, ds_sync.MutexWrap(datastore.NewMapDatastore()), 0, r.gen.pt); err != nil {
		r.close()
		return nil, err
	}
	for i, sp := range specs {
		h, err := r.mn.GenPeer()
		if err != nil {
			r.close()
			return nil, err
		}
		cs, err := certstore.CreateStore(ctx, ds_sync.MutexWrap(datastore.NewMapDatastore()), 0, r.gen.pt)
		if err != nil {
			r.close()
			return nil, err
		}
		s := &server{spec: sp, host: h, store: cs}
		idx := i
		switch sp.Kind {
		case kindByzForge, kindByzEmpty:
			h.SetStreamHandler(certexchange.FetchProtocolName(netName), func(st network.Stream) { r.byzHandle(idx, st) })
		default:
			s.srv = &certexchange.Server{NetworkName: netName, Host: &wrapHost{Host: h, r: r, idx: idx}, Store: cs}
			if err := s.srv.Start(ctx); err != nil {
				r.close()
				return nil, err
			}
		}
		r.servers = append(r.servers, s)
	}
	if err := r.mn.LinkAll(); err != nil {
		r.close()
		return nil, err
	}
	return r, nil
}

func (r *rig) newSubscriber(minI, initI, maxI time.Duration) *polling.Subscriber {
	r.sub = &polling.Subscriber{
		Client:              certexchange.Client{Host: r.clientHost, NetworkName: netName},
		Store:               r.clientStore,
		SignatureVerifier:   vsig.Backend{},
		MinimumPollInterval: minI,
		InitialPollInterval: initI,
		MaximumPollInterval: maxI,
	}
	return r.sub
}

func (r *rig) close() {
	r.stopOnce.Do(func() {
		r.cancel()
		if r.sub != nil {
			_ = r.sub.Stop(context.Background())
		}
		// drain a request that may sit at the gate
		for {
			select {
			case ev := <-r.gate:
				ev.release <- actReset
				continue
			default:
			}
			break
		}
		for _, s := range r.servers {
			if s.srv != nil {
				_ = s.srv.Stop(context.Background())
			}
		}
		if r.mn != nil {
			_ = r.mn.Close()
		}
	})
}

// byzHandle is the scripted Byzantine responder.
func (r *rig) byzHandle(idx int, st network.Stream) {
	act := r.await(idx)
	if act == actReset {
		_ = st.Reset()
		return
	}
	var req certexchange.Request
	if err := req.UnmarshalCBOR(st); err != nil {
		_ = st.Reset()
		return
	}
	hdr := certexchange.ResponseHeader{PendingInstance: req.FirstInstance + 3}
	if err := hdr.MarshalCBOR(st); err != nil {
		_ = st.Reset()
		return
	}
	if act == actByzGoodForge {
		_ = r.gen.get(int(req.FirstInstance)).MarshalCBOR(st)
		req.FirstInstance++
		act = actByzForge
	}
	if act == actByzForge {
		good := r.gen.get(int(req.FirstInstance))
		bad := *good
		bad.Signature = append([]byte{}, good.Signature...)
		bad.Signature[5] ^= 0x40
		_ = bad.MarshalCBOR(st)
	}
	_ = st.Close()
}

// materialize makes server s hold the first n produced certificates.
func (r *rig) materialize(s *server, n int) error {
	for s.have < n {
		if err := s.store.Put(r.ctx, r.gen.get(s.have)); err != nil {
			return err
		}
		s.have++
	}
	return nil
}

// handleGate is the driver's reaction to a request arriving at a server. The subscriber is
// blocked inside this request, so moving the mock clock here is exactly "the request took d".
func (r *rig) handleGate(ev *gateEv) error {
	s := r.servers[ev.srv]
	arrive := r.now()
	round := polling.VerifC20Round(r.sub)
	if r.onGate != nil {
		r.onGate(ev.srv, round, arrive)
	}
	var d time.Duration
	if r.latency != nil {
		d = r.latency(ev.srv)
	}
	if d > 0 {
		r.clk.Add(d)
	}
	now := r.now()
	act := actServe
	switch s.spec.Kind {
	case kindFailing:
		act = actReset
	case kindFlaky:
		if r.rng.Float64() < s.spec.FailProb {
			act = actReset
		}
	case kindByzForge:
		act = actByzForge
		// progress phase only (its oracle is model-free): whenever something is there to fetch the forger first hands
		// over the genuine next certificate (a peer judged Illegal is not asked again, so this is its one answer), so a peer whose poll ends Illegal has advanced the store.
		// Decided by the store position, not by the PRNG (draw order of the scenarios unchanged).
		if nx := int(r.storeNext()); r.localAny && nx < len(r.prod) {
			act = actByzGoodForge
			r.goodForge++
		}
	case kindByzEmpty:
		act = actByzEmpty
	}
	local := false
	if s.srv != nil {
		if err := r.materialize(s, r.visible(s, now)); err != nil {
			return err
		}
		if act == actServe && r.localPut != nil {
			if nx := r.storeNext(); (int(nx) < s.have || (r.localAny && int(nx) < len(r.prod))) && r.localPut(ev.srv) {
				// "GPBFT finished the instance locally while we were asking". If this server holds the
				// certificate it returns it as well; with localAny (progress phase only) a lagging server
				// may be the one being asked: the certificate then reaches the poller only through the
				// catch-up of the next Poll of this round (rounds that end with the poller behind the
				// store are not judged).
				if err := r.clientStore.Put(r.ctx, r.gen.get(int(nx))); err != nil {
					return err
				}
				local = true
			}
		}
	}
	r.reqs = append(r.reqs, reqRec{Srv: ev.srv, Kind: s.spec.Kind.String(), Round: round, Arrive: arrive, Release: now, Act: int(act), Local: local})
	ev.release <- act
	return nil
}

var errStuck = errors.New("stuck")

// pump drives the scenario until stop() holds. withTimers: a Subscriber run loop is live, so
// the mock clock is advanced to the next armed timer whenever no request is at a gate.
// Bounded real-time yields only decide "stuck" (inconclusive), never a verdict.
func (r *rig) pump(withTimers bool, stop func() bool) error {
	const maxIdle = 30000 // x 200us ~ 6 s without any request or clock movement
	idle := 0
	for !stop() {
		select {
		case ev := <-r.gate:
			if err := r.handleGate(ev); err != nil {
				return err
			}
			idle = 0
			continue
		default:
		}
		if r.ctx.Err() != nil {
			return fmt.Errorf("%w: scenario watchdog fired", errStuck)
		}
		if withTimers {
			before := r.clk.Now()
			r.clk.WaitForAllTimers()
			if !r.clk.Now().Equal(before) {
				idle = 0
				continue
			}
		}
		idle++
		if idle > maxIdle {
			return fmt.Errorf("%w: no request and no timer for %d yields at mock time %s", errStuck, maxIdle, r.now())
		}
		time.Sleep(200 * time.Microsecond)
	}
	return nil
}
