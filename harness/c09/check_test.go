// Package c09 is the runtime monitor for property C09 (certificate store:
// gap-free immutable history with derivable power tables).
//
// Part "seq" (TestCheck, this file): random operation sequences against the
// real certstore.Store, compared after EVERY step with the reference model of
// package vstore; checkpoint boundaries are crossed densely by lowering the
// unexported checkpoint frequency through the injected accessor; a separate
// class of cases does not touch the accessor and crosses the real 1440 boundary
// twice with changing tables.
//
// Part "conc" (TestConcurrent, conc_test.go, built with -race): writers,
// readers and subscribers running concurrently on one store.
package c09

import (
	"bytes"
	"context"
	"errors"
	"fmt"
	"math"
	"math/rand"
	"os"
	"runtime"
	"strings"
	"sync"
	"sync/atomic"
	"testing"
	"time"

	"github.com/filecoin-project/go-f3/certs"
	"github.com/filecoin-project/go-f3/certstore"
	"github.com/filecoin-project/go-f3/gpbft"
	"github.com/filecoin-project/go-f3/verifh/vkit"
	"github.com/filecoin-project/go-f3/verifh/vstore"
)

// fullUpTo: histories up to this many certificates are observed completely after
// every step; longer ones completely after every reopen/open attempt and every
// 4th step, and by sampling (lightCompare) after the other steps.
const fullUpTo = 20

const realFrequency = 1440 // what the property text calls "the 1440-instance checkpoint boundary"

type subscriber struct {
	ch      <-chan *certs.FinalityCertificate
	closer  func()
	pending bool // an accepted Put (or a Subscribe with a latest present) happened since the last read
	lazy    bool // reads only now and then (so that several notifications pile up)
}

// seqCase is one sequential execution.
type seqCase struct {
	run       *vkit.Run
	idx       int
	seed      int64
	g         *vstore.Gen
	rng       *rand.Rand
	prng      *rand.Rand // drives the sampled observations only, so the operation sequence does not depend on them
	freq      uint64     // lowered checkpoint frequency; 0 = accessor not used (real 1440)
	first     uint64
	ds        *vstore.CrashDS
	st        *certstore.Store
	model     *vstore.Model
	chain     *vstore.Chain
	subs      []*subscriber
	ops       []string // op log for the witness
	kinds     []byte   // op-kind letters, canonical description for distinct counting
	step      int
	forceFull bool // next comparison must be a complete observation
	light     bool // long real-boundary run: sampled observation instead of full one at every step

	crossed      int
	rejected     int
	noops        int
	reopens      int
	failed       bool
	ctx          context.Context
	localCounts  map[string]int64
	boundaryHits map[uint64]bool
}

func (c *seqCase) count(k string, n int64) { c.localCounts[k] += n }

func (c *seqCase) logf(format string, a ...any) {
	c.ops = append(c.ops, fmt.Sprintf("%d: ", c.step)+fmt.Sprintf(format, a...))
}

func (c *seqCase) violate(sig string, detail string) {
	if c.failed {
		return
	}
	c.failed = true
	tail := c.ops
	if len(tail) > 40 {
		tail = tail[len(tail)-40:]
	}
	c.run.Violation(sig, map[string]any{
		"case": c.idx, "case_seed": c.seed, "checkpoint_frequency": c.effFreq(), "accessor_used": c.freq != 0,
		"first_instance": c.first, "step": c.step, "detail": detail, "last_ops": tail,
		"model": c.model.Observe().Summary(),
	})
}

func (c *seqCase) effFreq() uint64 {
	if c.freq == 0 {
		return realFrequency
	}
	return c.freq
}

func (c *seqCase) adopt(st *certstore.Store) {
	if c.freq != 0 {
		certstore.VerifC09SetPowerTableFrequency(st, c.freq)
	}
	c.st = st
	c.forceFull = true
	c.subs = nil // subscriptions belong to the abandoned store object
}

// compare is the step-by-step oracle: every observable of the real store must
// equal the reference.
func (c *seqCase) compare(after string) {
	if c.failed || c.st == nil {
		return
	}
	if c.light || (c.model.Len() > fullUpTo && !c.forceFull && c.step%4 != 0) {
		c.lightCompare(after)
		return
	}
	c.forceFull = false
	got, want := vstore.Observe(c.ctx, c.st, c.first), c.model.Observe()
	c.count("full_observations", 1)
	c.count("tables_compared", int64(len(want.Tables)))
	c.count("certificates_compared", int64(2*len(want.Certs)))
	if d := got.Diff(want); d != "" {
		c.violate("C09 seq: store differs from reference after "+after+": "+canon(d), d)
	}
}

// canon strips instance numbers etc. from a diff so that signatures group.
func canon(d string) string {
	out := make([]byte, 0, len(d))
	for i := 0; i < len(d); i++ {
		if d[i] >= '0' && d[i] <= '9' {
			if len(out) == 0 || out[len(out)-1] != '#' {
				out = append(out, '#')
			}
			continue
		}
		out = append(out, d[i])
	}
	if len(out) > 160 {
		out = out[:160]
	}
	return string(out)
}

// lightCompare is the per-step oracle of the long real-frequency runs, where a
// full observation at every step would cost O(history^2): head, a few random
// certificates, a short range window, and the tables of next, next-1, the
// instances around the nearest multiple of the frequency and two random ones.
func (c *seqCase) lightCompare(after string) {
	c.count("sampled_observations", 1)
	bad := func(d string) { c.violate("C09 seq: store differs from reference after "+after+": "+canon(d), d) }
	l := c.st.Latest()
	if (l != nil) != c.model.HasLatest() {
		bad("latest present differs")
		return
	}
	next := c.model.Next()
	if l != nil {
		if !bytes.Equal(vstore.CertBytes(l), c.model.CertBytes(next-1)) {
			bad(fmt.Sprintf("latest certificate (instance %d) differs", l.GPBFTInstance))
			return
		}
		for k := 0; k < 3; k++ {
			i := c.first + uint64(c.prng.Int63n(int64(next-c.first)))
			if k == 0 {
				i = next - 1
			}
			got, err := c.st.Get(c.ctx, i)
			if err != nil || !bytes.Equal(vstore.CertBytes(got), c.model.CertBytes(i)) {
				bad(fmt.Sprintf("Get: certificate of instance %d differs (%v)", i, err))
				return
			}
			c.count("certificates_compared", 1)
		}
		a := c.first + uint64(c.prng.Int63n(int64(next-c.first)))
		b := min(a+uint64(c.prng.Intn(40)), next-1)
		got, err := c.st.GetRange(c.ctx, a, b)
		want, _ := c.model.Range(a, b)
		if err != nil || len(got) != len(want) {
			bad(fmt.Sprintf("GetRange(%d,%d): got %d want %d (%v)", a, b, len(got), len(want), err))
			return
		}
		for k := range got {
			if !bytes.Equal(vstore.CertBytes(&got[k]), want[k]) {
				bad(fmt.Sprintf("GetRange: certificate of instance %d differs", a+uint64(k)))
				return
			}
		}
		c.count("certificates_compared", int64(len(got)))
	}
	set := map[uint64]struct{}{next: {}, c.first: {}}
	if next > c.first {
		set[next-1] = struct{}{}
	}
	f := c.effFreq()
	if m := next - next%f; m >= f { // the nearest multiple at or below next, and the one above
		for d := uint64(0); d <= 2; d++ {
			for _, i := range []uint64{m - d, m + d} {
				if i >= c.first && i <= next {
					set[i] = struct{}{}
				}
			}
		}
	}
	for k := 0; k < 2; k++ {
		set[c.first+uint64(c.prng.Int63n(int64(next-c.first+1)))] = struct{}{}
	}
	for i := range set {
		t, err := c.st.GetPowerTable(c.ctx, i)
		if err != nil || !bytes.Equal(vstore.TableBytes(t), vstore.TableBytes(c.model.Table(i))) {
			bad(fmt.Sprintf("power table of instance %d differs (%v)", i, err))
			return
		}
		c.count("tables_compared", 1)
	}
}

// strideInstances: every instance within 5 of a multiple of the frequency plus every 11th.
func (c *seqCase) strideInstances() []uint64 {
	var out []uint64
	f := c.effFreq()
	for i := c.first; ; i++ {
		r := i % f
		if r <= 5 || f-r <= 5 || (i-c.first)%11 == 0 || i == c.model.Next() {
			out = append(out, i)
		}
		if i == c.model.Next() {
			return out
		}
	}
}

func (c *seqCase) create() {
	// things that must not work on an empty datastore
	if _, err := certstore.OpenStore(c.ctx, c.ds); !errors.Is(err, certstore.ErrNotInitialized) {
		c.violate("C09 seq: OpenStore on an empty datastore did not report not-initialised", fmt.Sprint(err))
	}
	initial := c.g.Table(1 + c.rng.Intn(6))
	var st *certstore.Store
	var err error
	if c.rng.Intn(2) == 0 {
		st, err = certstore.CreateStore(c.ctx, c.ds, c.first, initial)
		c.logf("CreateStore(first=%d, %d members) -> %v", c.first, len(initial), err)
	} else {
		st, err = certstore.OpenOrCreateStore(c.ctx, c.ds, c.first, initial)
		c.logf("OpenOrCreateStore(first=%d, %d members) -> %v", c.first, len(initial), err)
	}
	if err != nil {
		c.violate("C09 seq: creating a store on an empty datastore failed", err.Error())
		return
	}
	if err := c.model.Create(c.first, initial); err != nil {
		panic(err)
	}
	c.chain = c.g.NewChain(c.first, initial)
	c.adopt(st)
	c.kinds = append(c.kinds, 'C')
	c.compare("create")
}

// seqAbort is set once a writer was found blocked: every other case would block
// the same way, one watchdog period each.
var seqAbort atomic.Bool

const putWatchdog = 20 * time.Second

// put calls Store.Put under a watchdog: sequentially a Put can only fail to
// return if the writer is blocked (on a subscriber that does not read).
func (c *seqCase) put(cert *certs.FinalityCertificate) (err error, returned bool) {
	done := make(chan error, 1)
	st := c.st
	go func() { done <- st.Put(c.ctx, cert) }()
	select {
	case err := <-done:
		return err, true
	case <-time.After(putWatchdog):
	}
	if blocked, dump := blockedInPut(); blocked {
		c.violate("C09 seq: writer blocked: Put parked in a channel send to a subscriber", dump)
	} else {
		c.run.Count("watchdog_stalls_not_in_put_send", 1)
		c.run.Inconclusive("watchdog")
		c.failed = true
	}
	seqAbort.Store(true)
	return nil, false
}

func (c *seqCase) putValid() {
	next := c.chain.HeadTable()
	changed := c.rng.Intn(10) < 6
	if changed {
		next = c.g.EvolveBounded(next, 10)
	}
	cert := c.g.Successor(c.chain, next)
	out, why := c.model.Put(cert)
	if out != vstore.PutAccept {
		panic(fmt.Sprintf("c09: generator produced a successor the model rejects: %s", why))
	}
	if !bytes.Equal(vstore.TableBytes(c.model.Table(c.model.Next())), vstore.TableBytes(next)) {
		panic("c09: model-derived table differs from the generator's intended table")
	}
	c.chain.Append(cert, next)
	err, returned := c.put(cert)
	c.logf("Put(valid successor %d, table changed=%v, %d members) -> %v", cert.GPBFTInstance, changed, len(next), err)
	c.kinds = append(c.kinds, 'p')
	if !returned {
		return
	}
	if err != nil {
		c.violate("C09 seq: valid immediate successor was refused", fmt.Sprintf("instance %d: %v", cert.GPBFTInstance, err))
		return
	}
	c.count("puts_accepted", 1)
	if changed {
		c.count("puts_accepted_changing_table", 1)
	}
	if (cert.GPBFTInstance+1)%c.effFreq() == 0 {
		c.crossed++
		c.count("checkpoint_boundaries_crossed", 1)
		if c.freq == 0 {
			c.count("real_1440_boundaries_crossed", 1)
		}
	}
	for _, s := range c.subs {
		s.pending = true
	}
}

func (c *seqCase) putBad() {
	var v vstore.Variant
	var cert *certs.FinalityCertificate
	for cert == nil {
		v = vstore.BadVariants[c.rng.Intn(len(vstore.BadVariants))]
		cert = c.g.Bad(c.chain, v)
	}
	out, _, why := c.model.Classify(cert)
	if out == vstore.PutAccept {
		panic("c09: a bad variant is acceptable to the model: " + v.String())
	}
	err, returned := c.put(cert)
	c.logf("Put(%s, instance %d; model: %s %s) -> %v", v, cert.GPBFTInstance, out, why, err)
	c.kinds = append(c.kinds, byte('a'+int(v)))
	if !returned {
		return
	}
	c.count("puts_"+v.String(), 1)
	switch out {
	case vstore.PutReject:
		c.rejected++
		if err == nil {
			c.violate("C09 seq: inadmissible certificate accepted without error: "+v.String(), fmt.Sprintf("instance %d (%s)", cert.GPBFTInstance, why))
		}
	case vstore.PutNoop:
		c.noops++
		if err != nil {
			c.count("noop_puts_answered_with_error", 1)
		}
	}
}

func (c *seqCase) getOps() {
	has := c.model.HasLatest()
	latest := c.model.LatestInstance()
	var i uint64
	switch k := c.rng.Intn(4); {
	case k == 0 && has:
		i = c.first + uint64(c.rng.Int63n(int64(latest-c.first+1)))
	case k == 1:
		i = c.model.Next() + uint64(c.rng.Intn(3))
	case k == 2 && c.first > 0:
		i = c.first - 1
	default:
		i = c.rng.Uint64()
	}
	got, err := c.st.Get(c.ctx, i)
	want := c.model.CertBytes(i)
	c.logf("Get(%d) -> found=%v err=%v", i, got != nil, err)
	c.kinds = append(c.kinds, 'g')
	c.count("get_probes", 1)
	switch {
	case want == nil && err == nil:
		c.violate("C09 seq: Get returned a certificate for an instance that is not stored", fmt.Sprintf("Get(%d)", i))
	case want != nil && (err != nil || !bytes.Equal(vstore.CertBytes(got), want)):
		c.violate("C09 seq: Get does not return the stored certificate", fmt.Sprintf("Get(%d): %v", i, err))
	case want == nil && !errors.Is(err, certstore.ErrCertNotFound):
		c.count("get_missing_error_not_ErrCertNotFound", 1)
	}
}

func (c *seqCase) rangeOp() {
	next := c.model.Next()
	span := int64(next - c.first)
	var a, b uint64
	kind := c.rng.Intn(7)
	switch kind {
	case 0, 1: // inside
		if span == 0 {
			a, b = c.first, c.first
		} else {
			a = c.first + uint64(c.rng.Int63n(span))
			b = a + uint64(c.rng.Int63n(int64(next-a)))
		}
	case 2: // straddling latest
		a = c.first + uint64(c.rng.Int63n(span+1))
		b = next + uint64(c.rng.Intn(50))
	case 3: // entirely beyond
		a = next + uint64(c.rng.Intn(5))
		b = a + uint64(c.rng.Intn(100))
	case 4: // start > end
		b = c.first + uint64(c.rng.Int63n(span+1))
		a = b + 1 + uint64(c.rng.Intn(5))
	case 5: // span >= MaxInt: documented as "too large"
		a, b = 0, math.MaxUint64
		if c.rng.Intn(2) == 0 {
			a, b = c.first, c.first+math.MaxInt64
		}
	default: // starting below the first instance
		if c.first == 0 {
			a, b = 0, uint64(c.rng.Intn(5))
		} else {
			a = c.first - 1 - uint64(c.rng.Int63n(int64(min(c.first, 3))))
			b = c.first + uint64(c.rng.Intn(5))
		}
	}
	got, err := c.st.GetRange(c.ctx, a, b)
	c.logf("GetRange(%d,%d) -> %d certs err=%v", a, b, len(got), err)
	c.kinds = append(c.kinds, 'r')
	c.count("range_probes", 1)
	var want [][]byte
	complete := false
	if a <= b && b-a < math.MaxInt32 {
		want, complete = c.model.Range(a, b)
	}
	if len(got) != len(want) {
		c.violate("C09 seq: GetRange did not return exactly the stored certificates", fmt.Sprintf("GetRange(%d,%d): got %d want %d (err=%v)", a, b, len(got), len(want), err))
		return
	}
	for k := range got {
		if !bytes.Equal(vstore.CertBytes(&got[k]), want[k]) {
			c.violate("C09 seq: GetRange did not return exactly the stored certificates", fmt.Sprintf("GetRange(%d,%d): element %d differs", a, b, k))
			return
		}
	}
	if complete && err != nil {
		c.violate("C09 seq: GetRange failed on a fully stored range", fmt.Sprintf("GetRange(%d,%d): %v", a, b, err))
	}
	if !complete && err == nil {
		c.violate("C09 seq: GetRange reported success for a range that is not fully stored", fmt.Sprintf("GetRange(%d,%d): %d certs, no error", a, b, len(got)))
	}
}

func (c *seqCase) tableProbe() {
	next := c.model.Next()
	var i uint64
	switch c.rng.Intn(3) {
	case 0:
		i = next + 1 + uint64(c.rng.Intn(3))
	case 1:
		if c.first == 0 {
			i = math.MaxUint64
		} else {
			i = c.first - 1
		}
	default:
		i = c.first + uint64(c.rng.Int63n(int64(next-c.first+1)))
	}
	t, err := c.st.GetPowerTable(c.ctx, i)
	c.logf("GetPowerTable(%d) -> %d members err=%v", i, len(t), err)
	c.kinds = append(c.kinds, 't')
	c.count("table_probes", 1)
	want := c.model.Table(i)
	switch {
	case want != nil && (err != nil || !bytes.Equal(vstore.TableBytes(t), vstore.TableBytes(want))):
		c.violate("C09 seq: GetPowerTable differs from the table derived from the initial table and the deltas", fmt.Sprintf("GetPowerTable(%d): %v", i, err))
	case want == nil && err == nil:
		// Outside [first, latest+1] the property promises nothing; only counted.
		c.count("table_returned_outside_first_to_next", 1)
	}
}

func (c *seqCase) subscribeOp() {
	if len(c.subs) >= 5 {
		c.readSubs(true)
		return
	}
	ch, closer := c.st.Subscribe()
	s := &subscriber{ch: ch, closer: closer, pending: c.model.HasLatest(), lazy: c.rng.Intn(2) == 0}
	c.subs = append(c.subs, s)
	c.logf("Subscribe() (lazy=%v)", s.lazy)
	c.kinds = append(c.kinds, 's')
	c.count("subscriptions", 1)
}

func (c *seqCase) unsubscribeOp() {
	if len(c.subs) == 0 {
		return
	}
	i := c.rng.Intn(len(c.subs))
	s := c.subs[i]
	s.closer()
	s.closer() // closing twice must be harmless
	c.subs = append(c.subs[:i], c.subs[i+1:]...)
	c.logf("unsubscribe")
	c.kinds = append(c.kinds, 'u')
	// drain whatever was buffered; never block on it (closing is not part of the property)
	for k := 0; k < 2; k++ {
		select {
		case <-s.ch:
		default:
		}
	}
}

// readSubs lets subscribers read (lazy ones only when forced or by chance).
// Sequentially there is no "eventually": after an accepted Put returned, the
// latest certificate must already be waiting, and whatever a subscriber
// receives must be the latest certificate.
func (c *seqCase) readSubs(force bool) {
	for _, s := range c.subs {
		if s.lazy && !force && c.rng.Intn(4) != 0 {
			continue
		}
		var got *certs.FinalityCertificate
		select {
		case got = <-s.ch:
		default:
		}
		c.count("subscriber_reads", 1)
		switch {
		case got == nil && s.pending:
			c.violate("C09 seq: subscriber has nothing to read although a newer certificate was stored", "")
		case got != nil:
			c.count("subscriber_values", 1)
			if !s.pending {
				c.count("subscriber_values_without_new_certificate", 1)
			}
			if !c.model.HasLatest() || !bytes.Equal(vstore.CertBytes(got), c.model.CertBytes(c.model.LatestInstance())) {
				c.violate("C09 seq: subscriber received something other than the latest certificate", fmt.Sprintf("got instance %d", got.GPBFTInstance))
			}
		}
		s.pending = false
	}
}

func (c *seqCase) reopen() {
	var st *certstore.Store
	var err error
	v := c.rng.Intn(2)
	if v == 0 {
		st, err = certstore.OpenStore(c.ctx, c.ds)
		c.logf("reopen: OpenStore -> %v", err)
	} else {
		st, err = certstore.OpenOrCreateStore(c.ctx, c.ds, c.first, c.model.InitialTable())
		c.logf("reopen: OpenOrCreateStore(first, initial table) -> %v", err)
	}
	c.kinds = append(c.kinds, byte('O'+v))
	c.reopens++
	c.count("reopens", 1)
	if err != nil {
		c.violate("C09 seq: reopening an existing store failed", err.Error())
		return
	}
	c.adopt(st)
}

// wrongOpen tries the open variants that must not disturb an existing store.
func (c *seqCase) wrongOpen() {
	var st *certstore.Store
	var err error
	what := ""
	switch c.rng.Intn(4) {
	case 0:
		wf := c.first + 1 + uint64(c.rng.Intn(3))
		if c.first > 0 && c.rng.Intn(2) == 0 {
			wf = c.first - 1
		}
		st, err = certstore.OpenOrCreateStore(c.ctx, c.ds, wf, c.model.InitialTable())
		what = fmt.Sprintf("OpenOrCreateStore(wrong first %d)", wf)
	case 1:
		st, err = certstore.OpenOrCreateStore(c.ctx, c.ds, c.first, c.g.Evolve(c.model.InitialTable(), c.g.RandomChange()))
		what = "OpenOrCreateStore(wrong initial table)"
	case 2:
		st, err = certstore.CreateStore(c.ctx, c.ds, c.first+uint64(c.rng.Intn(2)), c.g.Table(2))
		what = "CreateStore(on existing store)"
	default:
		st, err = certstore.OpenOrCreateStore(c.ctx, c.ds, c.first, nil)
		what = "OpenOrCreateStore(empty table)"
	}
	c.logf("%s -> %v", what, err)
	c.kinds = append(c.kinds, 'w')
	c.count("wrong_opens", 1)
	if err == nil {
		// The property only says the store's content is what it is; a successful
		// "wrong" open is judged by what the store it returned shows.
		c.count("wrong_opens_that_succeeded", 1)
		c.adopt(st)
		c.compare(what + " (succeeded)")
	}
	// whatever happened, the persistent state must still reopen to the reference
	st2, err2 := certstore.OpenStore(c.ctx, c.ds)
	if err2 != nil {
		c.violate("C09 seq: store cannot be reopened after a refused open/create attempt", what+": "+err2.Error())
		return
	}
	old, oldSubs := c.st, c.subs
	c.adopt(st2)
	c.compare("reopen following " + what)
	if err != nil { // keep working with the original object (and its subscribers)
		c.st, c.subs = old, oldSubs
	}
}

func (c *seqCase) runSteps(n int) {
	for c.step = 1; c.step <= n && !c.failed && !seqAbort.Load(); c.step++ {
		x := c.rng.Intn(100)
		switch {
		case x < 38:
			c.putValid()
		case x < 60:
			c.putBad()
		case x < 66:
			c.getOps()
		case x < 74:
			c.rangeOp()
		case x < 79:
			c.tableProbe()
		case x < 83:
			c.subscribeOp()
		case x < 86:
			c.unsubscribeOp()
		case x < 95:
			c.reopen()
		default:
			c.wrongOpen()
		}
		c.readSubs(false)
		c.compare("step")
	}
	c.readSubs(true)
}

func pickFirst(rng *rand.Rand, freq uint64, maxPuts uint64) uint64 {
	var first uint64
	switch rng.Intn(6) {
	case 0, 1:
		first = 0
	case 2:
		first = 1 + uint64(rng.Intn(60))
	case 3:
		first = realFrequency*uint64(1+rng.Intn(4)) - 1 - uint64(rng.Intn(20)) // straddles a multiple of 1440
	case 4:
		first = 1<<40 + uint64(rng.Int63n(1<<40)) // huge
	default:
		first = 1<<62 + uint64(rng.Int63n(1<<40))
	}
	if realFrequency%freq != 0 {
		// The accessor lowers the frequency only on an open store: the open
		// functions themselves still derive the head table with 1440, so a lowered
		// frequency that does not divide 1440 must not meet a multiple of 1440
		// (a store is never operated with two frequencies in production).
		if r := first % realFrequency; r == 0 || r+maxPuts+2 >= realFrequency {
			first = first - r + 1 + uint64(rng.Intn(int(realFrequency-maxPuts-4)))
		}
	}
	return first
}

func newSeqCase(run *vkit.Run, i int) *seqCase {
	seed := run.SubSeed(int64(i))
	g := vstore.NewGen(seed)
	return &seqCase{run: run, idx: i, seed: seed, g: g, rng: g.Rand(), prng: rand.New(rand.NewSource(seed ^ 0x5bd1e995)), ds: vstore.NewCrashDS(), model: vstore.NewModel(),
		ctx: context.Background(), localCounts: map[string]int64{}}
}

// loweredCase: checkpoint frequency lowered to 2, 3, 5 or 7 through the accessor.
func loweredCase(run *vkit.Run, i int) *seqCase {
	c := newSeqCase(run, i)
	c.freq = []uint64{2, 3, 7, 5, 2, 3}[c.rng.Intn(6)]
	steps := 30 + c.rng.Intn(371)
	c.first = pickFirst(c.rng, c.freq, uint64(steps))
	c.create()
	c.runSteps(steps)
	return c
}

// realCase: no accessor; starts shortly before a multiple of 1440 and stores
// enough certificates (with changing tables, refused puts and reopens in
// between) to cross the real boundary twice.
func realCase(run *vkit.Run, i int) *seqCase {
	c := newSeqCase(run, i)
	c.freq = 0
	c.light = true
	k := uint64([]int{0, 0, 1, 3, 1 << 30}[c.rng.Intn(5)])
	c.first = realFrequency*(k+1) - 2 - uint64(c.rng.Intn(25))
	if c.rng.Intn(3) == 0 {
		c.first = realFrequency * k // exactly on a multiple
	}
	target := (c.first/realFrequency+2)*realFrequency + 3 + uint64(c.rng.Intn(20)) // past the second boundary
	if c.first%realFrequency == 0 {
		target = c.first + 2*realFrequency + 3
	}
	c.create()
	for c.step = 1; !c.failed && !seqAbort.Load() && c.model.Next() < target; c.step++ {
		next := c.model.Next()
		dist := min(next%realFrequency, realFrequency-next%realFrequency) // distance to the nearest boundary
		x := c.rng.Intn(1000)
		switch {
		case x < 40:
			c.putBad()
		case x < 50 || (dist <= 2 && x < 300):
			c.reopen()
		case x < 60:
			c.rangeOp()
		case x < 70:
			c.tableProbe()
		case x < 75:
			c.getOps()
		case x < 78:
			c.wrongOpen()
		default:
			c.putValid()
		}
		if dist <= 3 || c.step%5 == 0 {
			c.compare("step")
		} else if !c.failed { // cheap head check at every step
			l := c.st.Latest()
			if (l != nil) != c.model.HasLatest() || (l != nil && !bytes.Equal(vstore.CertBytes(l), c.model.CertBytes(c.model.LatestInstance()))) {
				c.violate("C09 seq: Latest differs from reference", "")
			}
		}
	}
	// one complete observation of all certificates (Get and GetRange over the whole
	// history) and of the tables around the boundaries and at stride 11, before
	// and after a final reopen
	final := func(after string) {
		if c.failed {
			return
		}
		inst := c.strideInstances()
		got, want := vstore.ObserveAt(c.ctx, c.st, c.first, inst), c.model.ObserveAt(inst)
		c.count("full_observations", 1)
		c.count("tables_compared", int64(len(want.Tables)))
		c.count("certificates_compared", int64(2*len(want.Certs)))
		if d := got.Diff(want); d != "" {
			c.violate("C09 seq: store differs from reference after "+after+": "+canon(d), d)
		}
	}
	final("end of real-boundary run")
	c.reopen()
	final("final reopen of real-boundary run")
	return c
}

func TestCheck(t *testing.T) {
	run := vkit.New("C09", "seq", "exploration")
	nReal := run.N(1, 20)
	nLow := run.N(300, 8000)
	run.SetRule("each evaluation is one seeded sequence of 30-400 operations (create, put of a valid successor with changed/unchanged table, put of 11 inadmissible/stale variants, get, range, power-table probes, subscribe/unsubscribe, reopen with OpenStore/OpenOrCreateStore, refused open/create attempts) on a real certstore.Store, every observable compared with the reference model after every step (complete observation while <= 20 certificates are stored, after every (re)open and every 4th step; head, random certificates, a range window and the tables around the head and the nearest checkpoint after the other steps); checkpoint frequency lowered to 2/3/5/7 through the accessor, plus real-frequency runs (no accessor) crossing a multiple of 1440 twice; distinct = distinct (frequency, first-instance, operation-kind sequence); non-trivial = the sequence crossed a checkpoint boundary, had a refused put and a reopen")
	run.Assume("the initial power table handed to the store is in canonical order (power descending, id ascending), as go-f3 produces it",
		"the lowered checkpoint frequency is set through an injected accessor right after every open; where it does not divide 1440 the sequence stays clear of multiples of 1440 because the open functions derive the head table with the built-in frequency",
		"certificates are signed with the harness stand-in scheme (certstore.Put does not verify signatures)",
		"already-stored instances re-submitted to Put may be answered nil or error (the property only says nothing changes)",
		"GetPowerTable outside [first, latest+1] and Get/GetRange error kinds are counted, not judged")
	var mu sync.Mutex
	var nontrivial, crossedTotal int64
	body := func(i int) {
		run.Breadcrumb(fmt.Sprintf("case=%d", i))
		var c *seqCase
		if i < nReal {
			c = realCase(run, i)
		} else {
			c = loweredCase(run, i)
		}
		run.Eval(1)
		if c.crossed > 0 && c.rejected > 0 && c.reopens > 0 {
			run.Distinct(fmt.Sprintf("%d|%d|%s", c.effFreq(), c.first, c.kinds))
			mu.Lock()
			nontrivial++
			mu.Unlock()
		}
		mu.Lock()
		crossedTotal += int64(c.crossed)
		for k, v := range c.localCounts {
			run.Count(k, v)
		}
		mu.Unlock()
		run.Count("steps", int64(c.step))
		if i < nReal || i < nReal+3 {
			run.Sample(map[string]any{"case": i, "frequency": c.effFreq(), "accessor_used": c.freq != 0, "first": c.first, "steps": c.step,
				"stored": c.model.Len(), "boundaries_crossed": c.crossed, "refused_puts": c.rejected, "noop_puts": c.noops, "reopens": c.reopens,
				"ops_head": strings.Join(c.ops[:min(6, len(c.ops))], " | ")})
		}
	}
	if run.Case >= 0 {
		body(int(run.Case))
	} else {
		vkit.Parallel(nReal+nLow, runtime.GOMAXPROCS(0), body)
		// floors
		if seqAbort.Load() {
			// a blocked writer was reported (or an unexplained stall made the run inconclusive)
		} else if nontrivial*2 < int64(nLow) || crossedTotal == 0 || run.Counter("real_1440_boundaries_crossed") < int64(2*nReal) {
			if run.Violations() == 0 {
				run.Inconclusive("too-few-events")
			}
		}
	}
	rc := run.Finish()
	if rc != 0 {
		t.Fail()
	}
	if rc == 2 {
		os.Exit(2)
	}
}

var _ = gpbft.PowerEntries(nil)
