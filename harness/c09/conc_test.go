package c09

import (
	"bytes"
	"context"
	"fmt"
	"math/rand"
	"os"
	"runtime"
	"strings"
	"sync"
	"sync/atomic"
	"testing"
	"time"

	"github.com/anishathalye/porcupine"
	"github.com/filecoin-project/go-f3/certs"
	"github.com/filecoin-project/go-f3/certstore"
	"github.com/filecoin-project/go-f3/verifh/vkit"
	"github.com/filecoin-project/go-f3/verifh/vstore"
)

// Concurrent phase of C09 (built with -race).
//
// One store; 1 writer (valid successors interleaved with inadmissible puts) or
// 2 competing writers submitting different certificates for the same
// successor; 8 readers (Latest / Get / GetRange / GetPowerTable); subscribers:
// two eager ones (one unsubscribes half-way), one slow, one that never reads,
// one that subscribes late. The datastore yields a random number of times
// before each write, i.e. between the individual writes of a Put.
//
// Oracles: per-reader Latest monotone; Get(i) found for every i <= an already
// observed Latest, equal to one of the submitted certificates of instance i and
// never changing; GetRange over observed instances complete and equal to Get;
// GetPowerTable(i) for i <= observed latest+1 equals the reference table;
// {Put -> ok/err, Latest -> instance} history linearizable (porcupine) w.r.t.
// the successor-only register; at quiescence the last value of every live
// subscriber is the latest certificate, and the store equals the reference
// built from the winners, also after reopening; a Put that does not return
// while parked in a channel send inside Store.Put is "writer blocked".

const watchdog = 45 * time.Second

type putIn struct {
	Instance uint64
	Invalid  bool // inadmissible whatever the position (wrong delta etc.)
}
type latestIn struct{}

type regState struct {
	First, Next uint64
}

func regModel(first uint64) porcupine.Model {
	return porcupine.Model{
		Init: func() interface{} { return regState{First: first, Next: first} },
		Step: func(state, input, output interface{}) (bool, interface{}) {
			s := state.(regState)
			switch in := input.(type) {
			case putIn:
				ok := output.(bool)
				switch {
				case in.Instance < s.First, in.Instance > s.Next:
					return !ok, s
				case in.Instance < s.Next: // already stored: nothing changes; return value not fixed by the property
					return true, s
				case in.Invalid:
					return !ok, s
				default:
					if !ok {
						return false, s
					}
					return true, regState{First: s.First, Next: s.Next + 1}
				}
			case latestIn:
				got := output.(int64) // -1: none, else offset from first
				return got == int64(s.Next-s.First)-1, s
			}
			return false, s
		},
		Equal: func(a, b interface{}) bool { return a.(regState) == b.(regState) },
		DescribeOperation: func(input, output interface{}) string {
			switch in := input.(type) {
			case putIn:
				return fmt.Sprintf("Put(%d invalid=%v)->ok=%v", in.Instance, in.Invalid, output)
			default:
				return fmt.Sprintf("Latest()->%v", output)
			}
		},
	}
}

type concCase struct {
	run   *vkit.Run
	idx   int
	seed  int64
	first uint64
	freq  uint64
	n     int
	dual  bool

	a, b   []*certs.FinalityCertificate
	ab, bb [][]byte
	tables [][]byte // tables[k] validates first+k, k = 0..n

	st  *certstore.Store
	ds  *vstore.CrashDS
	clk atomic.Int64

	mu       sync.Mutex
	seen     map[uint64][]byte // first observed Get(i)
	history  []porcupine.Operation
	problems []string
	counts   map[string]int64
}

func (c *concCase) problem(sig, detail string) {
	c.mu.Lock()
	c.problems = append(c.problems, sig+"\x00"+detail)
	c.mu.Unlock()
}

func (c *concCase) count(k string, n int64) {
	c.mu.Lock()
	c.counts[k] += n
	c.mu.Unlock()
}

func (c *concCase) record(ops []porcupine.Operation) {
	c.mu.Lock()
	c.history = append(c.history, ops...)
	c.mu.Unlock()
}

// checkCert: immutability + "is one of the submitted certificates".
func (c *concCase) checkCert(i uint64, got []byte, via string) {
	k := int(i - c.first)
	if !bytes.Equal(got, c.ab[k]) && !bytes.Equal(got, c.bb[k]) {
		c.problem("C09 conc: "+via+" returned a certificate that was never submitted for that instance", fmt.Sprintf("instance %d", i))
		return
	}
	c.mu.Lock()
	prev, ok := c.seen[i]
	if !ok {
		c.seen[i] = got
	}
	c.mu.Unlock()
	if ok && !bytes.Equal(prev, got) {
		c.problem("C09 conc: stored certificate changed (Get not immutable)", fmt.Sprintf("instance %d via %s", i, via))
	}
}

func yield(rng *rand.Rand, max int) {
	for k := rng.Intn(max + 1); k > 0; k-- {
		runtime.Gosched()
	}
}

func (c *concCase) writer(id int, rng *rand.Rand, mine []*certs.FinalityCertificate, g *vstore.Gen, chain *vstore.Chain) {
	ctx := context.Background()
	var ops []porcupine.Operation
	put := func(cert *certs.FinalityCertificate, invalid bool) bool {
		call := c.clk.Add(1)
		err := c.st.Put(ctx, cert)
		ret := c.clk.Add(1)
		ops = append(ops, porcupine.Operation{ClientId: id, Input: putIn{Instance: cert.GPBFTInstance, Invalid: invalid}, Call: call, Output: err == nil, Return: ret})
		return err == nil
	}
	for k, cert := range mine {
		if !c.dual && rng.Intn(3) == 0 {
			// an inadmissible put relative to the history stored so far (chain holds certs[:k])
			pre := &vstore.Chain{First: chain.First, Genesis: chain.Genesis, Certs: chain.Certs[:k], Tables: chain.Tables[:k+1]}
			vs := []vstore.Variant{vstore.VariantGap, vstore.VariantWrongDeltaCID, vstore.VariantEmptyDeltaWrongCID, vstore.VariantStale, vstore.VariantDuplicateDifferent, vstore.VariantEmptyingDelta, vstore.VariantBottom}
			v := vs[rng.Intn(len(vs))]
			if bad := g.Bad(pre, v); bad != nil {
				ok := put(bad, v.MustFail())
				c.count("bad_puts", 1)
				if v.MustFail() && ok {
					c.problem("C09 conc: inadmissible certificate accepted without error: "+v.String(), fmt.Sprintf("instance %d", bad.GPBFTInstance))
				}
			}
		}
		if c.dual && rng.Intn(8) == 0 && k+3 < len(mine) { // a gap put in between
			if put(mine[k+2+rng.Intn(2)], false) {
				// legal only if the other writer got far enough; the register model decides
				c.count("ahead_puts_accepted", 1)
			}
		}
		if !put(cert, false) {
			c.problem("C09 conc: Put of the successor (or of an already stored instance) failed", fmt.Sprintf("writer %d instance %d", id, cert.GPBFTInstance))
		}
		c.count("puts", 1)
		yield(rng, 6)
	}
	c.record(ops)
}

func (c *concCase) reader(id int, rng *rand.Rand, done *atomic.Bool) {
	ctx := context.Background()
	var ops []porcupine.Operation
	seen := int64(-1) // highest offset observed through Latest
	recorded := 0
	for it := 0; it < 4000; it++ {
		if done.Load() && it > 40 {
			break
		}
		switch x := rng.Intn(10); {
		case x < 3 || seen < 0:
			call := c.clk.Add(1)
			l := c.st.Latest()
			ret := c.clk.Add(1)
			off := int64(-1)
			if l != nil {
				off = int64(l.GPBFTInstance - c.first)
				if l.GPBFTInstance < c.first || off >= int64(c.n) {
					c.problem("C09 conc: Latest returned an instance outside the submitted history", fmt.Sprint(l.GPBFTInstance))
					return
				}
			}
			if off < seen {
				c.problem("C09 conc: Latest went backwards for one reader", fmt.Sprintf("reader %d: %d after %d", id, off, seen))
			}
			seen = max(seen, off)
			if recorded < 60 {
				recorded++
				ops = append(ops, porcupine.Operation{ClientId: id, Input: latestIn{}, Call: call, Output: off, Return: ret})
			}
			c.count("latest_calls", 1)
		case x < 6:
			i := c.first + uint64(rng.Int63n(seen+1))
			got, err := c.st.Get(ctx, i)
			if err != nil {
				c.problem("C09 conc: Get failed for an instance at or below an observed Latest", fmt.Sprintf("Get(%d) with latest >= %d: %v", i, c.first+uint64(seen), err))
				break
			}
			c.checkCert(i, vstore.CertBytes(got), "Get")
			c.count("gets", 1)
		case x < 8:
			a := c.first + uint64(rng.Int63n(seen+1))
			b := a + uint64(rng.Int63n(int64(c.first+uint64(seen)-a)+1))
			got, err := c.st.GetRange(ctx, a, b)
			if err != nil || uint64(len(got)) != b-a+1 {
				c.problem("C09 conc: GetRange incomplete over instances at or below an observed Latest", fmt.Sprintf("GetRange(%d,%d): %d certs, %v", a, b, len(got), err))
				break
			}
			for k := range got {
				c.checkCert(a+uint64(k), vstore.CertBytes(&got[k]), "GetRange")
			}
			c.count("ranges", 1)
		default:
			off := rng.Int63n(seen + 2) // up to observed latest + 1
			t, err := c.st.GetPowerTable(ctx, c.first+uint64(off))
			if err != nil || !bytes.Equal(vstore.TableBytes(t), c.tables[off]) {
				c.problem("C09 conc: GetPowerTable differs from the derived table for an instance <= observed latest+1", fmt.Sprintf("instance %d: %v", c.first+uint64(off), err))
			}
			c.count("tables", 1)
		}
		yield(rng, 3)
	}
	c.record(ops)
}

type subResult struct {
	name   string
	values int
	last   []byte
	closed bool
}

// subscriberLoop reads until stop is closed, then drains what is buffered.
func (c *concCase) subscriberLoop(name string, ch <-chan *certs.FinalityCertificate, slow bool, rng *rand.Rand, stop <-chan struct{}, floor int64) subResult {
	res := subResult{name: name}
	lastInst := floor
	take := func(cert *certs.FinalityCertificate) {
		res.values++
		off := int64(cert.GPBFTInstance - c.first)
		if off < lastInst {
			c.problem("C09 conc: subscriber received an older certificate after a newer one", fmt.Sprintf("%s: %d after %d", name, off, lastInst))
		}
		lastInst = off
		res.last = vstore.CertBytes(cert)
	}
	for {
		select {
		case cert, ok := <-ch:
			if !ok {
				res.closed = true
				return res
			}
			take(cert)
			if slow {
				yield(rng, 400)
			}
		case <-stop:
			for {
				select {
				case cert, ok := <-ch:
					if !ok {
						res.closed = true
						return res
					}
					take(cert)
				default:
					return res
				}
			}
		}
	}
}

// blockedInPut inspects a goroutine dump for a goroutine parked in a channel
// send inside certstore.(*Store).Put.
func blockedInPut() (bool, string) {
	buf := make([]byte, 4<<20)
	buf = buf[:runtime.Stack(buf, true)]
	for _, g := range strings.Split(string(buf), "\n\n") {
		head, _, _ := strings.Cut(g, "\n")
		if strings.Contains(head, "[chan send") && strings.Contains(g, "certstore.(*Store).Put") {
			return true, g
		}
	}
	return false, string(buf[:min(len(buf), 6000)])
}

// runConc executes one concurrent history. It returns false if the case had
// to be abandoned (watchdog), in which case goroutines may be leaked.
func runConc(run *vkit.Run, idx int) (c *concCase, completed bool) {
	seed := run.SubSeed(int64(idx))
	g := vstore.NewGen(seed)
	rng := g.Rand()
	c = &concCase{run: run, idx: idx, seed: seed, seen: map[uint64][]byte{}, counts: map[string]int64{}}
	c.freq = []uint64{2, 3, 5, 4}[rng.Intn(4)]
	c.first = []uint64{0, 7, 1000, 1 << 33}[rng.Intn(4)]
	c.n = 16 + rng.Intn(45)
	c.dual = rng.Intn(2) == 0

	chain := g.NewChain(c.first, g.Table(1+rng.Intn(5)))
	g.Extend(chain, c.n, 0.6)
	c.a = chain.Certs
	ref := vstore.NewModel()
	_ = ref.Create(c.first, chain.Tables[0])
	for k, cert := range c.a {
		if out, why := ref.Put(cert); out != vstore.PutAccept {
			panic("c09 conc: model refuses generated chain: " + why)
		}
		c.ab = append(c.ab, vstore.CertBytes(cert))
		// B: same instance and table evolution, different content (other commitments, other signer set)
		alt := vstore.CloneCert(cert)
		rng.Read(alt.SupplementalData.Commitments[:])
		g.Sign(alt, chain.Tables[k])
		c.b = append(c.b, alt)
		c.bb = append(c.bb, vstore.CertBytes(alt))
	}
	for k := 0; k <= c.n; k++ {
		c.tables = append(c.tables, vstore.TableBytes(ref.Table(c.first+uint64(k))))
	}

	ctx := context.Background()
	c.ds = vstore.NewCrashDS()
	st, err := certstore.CreateStore(ctx, c.ds, c.first, chain.Tables[0])
	if err != nil {
		panic(err)
	}
	certstore.VerifC09SetPowerTableFrequency(st, c.freq)
	c.st = st
	// yields between the individual datastore writes of a Put (the hook runs in the writer, inside Put)
	var hseed atomic.Int64
	hseed.Store(seed)
	c.ds.SetWriteHook(func(vstore.WriteRec) {
		x := hseed.Add(0x9E3779B97F4A7C)
		for k := (x >> 20) & 15; k > 0; k-- {
			runtime.Gosched()
		}
	})

	var done atomic.Bool
	stop := make(chan struct{})
	var writers, others sync.WaitGroup
	results := make(chan subResult, 8)
	mkrng := func(k int64) *rand.Rand { return rand.New(rand.NewSource(seed ^ (k * 0x5DEECE66D))) }

	// subscribers present from the start
	type subSpec struct {
		name string
		slow bool
	}
	neverCh, _ := st.Subscribe()
	quitCh, quitCloser := st.Subscribe()
	for k, sp := range []subSpec{{"eager", false}, {"slow", true}} {
		ch, _ := st.Subscribe()
		others.Add(1)
		go func() {
			defer others.Done()
			results <- c.subscriberLoop(sp.name, ch, sp.slow, mkrng(int64(100+k)), stop, -1)
		}()
	}
	others.Add(1)
	go func() { // eager subscriber that unsubscribes half-way
		defer others.Done()
		r := mkrng(200)
		got := 0
		for open := true; open; {
			select {
			case cert, ok := <-quitCh:
				if !ok {
					open = false
					break
				}
				got++
				if int(cert.GPBFTInstance-c.first) >= c.n/2 {
					quitCloser()
				}
				yield(r, 3)
			case <-stop: // the history ended below n/2 (only possible if puts were refused)
				quitCloser()
				open = false
			}
		}
		c.count("unsubscribed_subscriber_values", int64(got))
	}()
	others.Add(1)
	go func() { // late subscriber
		defer others.Done()
		r := mkrng(300)
		for {
			if l := st.Latest(); l != nil && int(l.GPBFTInstance-c.first) >= c.n/3 {
				floor := int64(l.GPBFTInstance - c.first)
				ch, _ := st.Subscribe()
				results <- c.subscriberLoop("late", ch, false, r, stop, floor)
				return
			}
			if done.Load() {
				return
			}
			yield(r, 5)
		}
	}()
	for k := 0; k < 8; k++ {
		others.Add(1)
		go func() {
			defer others.Done()
			c.reader(10+k, mkrng(int64(400+k)), &done)
		}()
	}
	if c.dual {
		writers.Add(2)
		go func() { defer writers.Done(); c.writer(0, mkrng(1), c.a, nil, nil) }()
		go func() { defer writers.Done(); c.writer(1, mkrng(2), c.b, nil, nil) }()
	} else {
		writers.Add(1)
		wg := vstore.NewGen(seed ^ 0x77)
		go func() { defer writers.Done(); c.writer(0, mkrng(1), c.a, wg, chain) }()
	}

	wdone := make(chan struct{})
	go func() { writers.Wait(); close(wdone) }()
	select {
	case <-wdone:
	case <-time.After(watchdog):
		if blocked, dump := blockedInPut(); blocked {
			run.Violation("C09 conc: writer blocked: Put parked in a channel send to a subscriber", map[string]any{
				"case": idx, "case_seed": seed, "goroutine": dump, "dual_writers": c.dual})
		} else {
			run.Count("watchdog_stalls_not_in_put_send", 1)
			run.Inconclusive("watchdog")
			fmt.Println("watchdog stall, goroutines:\n" + dump)
		}
		return c, false
	}
	done.Store(true)
	close(stop)
	odone := make(chan struct{})
	go func() { others.Wait(); close(odone) }()
	select {
	case <-odone:
	case <-time.After(watchdog):
		run.Count("watchdog_stalls_readers", 1)
		run.Inconclusive("watchdog")
		return c, false
	}
	close(results)

	// quiescence
	latest := st.Latest()
	if latest == nil || latest.GPBFTInstance != c.first+uint64(c.n)-1 {
		c.problem("C09 conc: after all successors were put the latest certificate is not the last one", fmt.Sprint(latest))
		return c, true
	}
	lb := vstore.CertBytes(latest)
	for r := range results {
		c.count("subscriber_values", int64(r.values))
		if !bytes.Equal(r.last, lb) {
			c.problem("C09 conc: at quiescence a subscriber's last value is not the latest certificate", fmt.Sprintf("subscriber %s after %d values", r.name, r.values))
		}
		c.count("subscribers_checked_at_quiescence", 1)
	}
	select { // the subscriber that never read: exactly the latest must be waiting
	case got := <-neverCh:
		if !bytes.Equal(vstore.CertBytes(got), lb) {
			c.problem("C09 conc: at quiescence a subscriber's last value is not the latest certificate", "subscriber that never read")
		}
		c.count("subscribers_checked_at_quiescence", 1)
	default:
		c.problem("C09 conc: at quiescence a subscriber's last value is not the latest certificate", "subscriber that never read has nothing buffered")
	}

	// final state == reference built from the winners, before and after reopening
	win := vstore.NewModel()
	_ = win.Create(c.first, chain.Tables[0])
	for k := 0; k < c.n; k++ {
		got, err := st.Get(ctx, c.first+uint64(k))
		if err != nil {
			c.problem("C09 conc: Get failed for an instance at or below an observed Latest", err.Error())
			return c, true
		}
		gb := vstore.CertBytes(got)
		c.checkCert(c.first+uint64(k), gb, "Get")
		w := c.a[k]
		if bytes.Equal(gb, c.bb[k]) {
			w = c.b[k]
			c.count("instances_won_by_second_writer", 1)
		}
		if out, why := win.Put(w); out != vstore.PutAccept {
			c.problem("C09 conc: stored history is not a chain of admissible successors", why)
			return c, true
		}
	}
	want := win.Observe()
	if d := vstore.Observe(ctx, st, c.first).Diff(want); d != "" {
		c.problem("C09 conc: final store differs from reference: "+canon(d), d)
	}
	re, err := certstore.OpenStore(ctx, c.ds)
	if err != nil {
		c.problem("C09 conc: reopening after the concurrent history failed", err.Error())
	} else {
		certstore.VerifC09SetPowerTableFrequency(re, c.freq)
		if d := vstore.Observe(ctx, re, c.first).Diff(want); d != "" {
			c.problem("C09 conc: reopened store differs from reference: "+canon(d), d)
		}
	}

	// linearizability of {Put, Latest}
	res := porcupine.CheckOperationsTimeout(regModel(c.first), c.history, 60*time.Second)
	switch res {
	case porcupine.Illegal:
		c.problem("C09 conc: {Put, Latest} history is not linearizable", fmt.Sprintf("%d operations", len(c.history)))
	case porcupine.Unknown:
		c.count("porcupine_unknown", 1)
	default:
		c.count("porcupine_ok", 1)
	}
	c.count("porcupine_operations", int64(len(c.history)))
	return c, true
}

func TestConcurrent(t *testing.T) {
	run := vkit.New("C09", "conc", "exploration")
	n := run.N(40, 3000)
	run.SetRule("each evaluation is one concurrent history on one store: 1 writer (with inadmissible puts) or 2 competing writers with different certificates for the same successors, 8 readers, 5 subscribers (eager, slow, never-reading, late, unsubscribing), random yields before every datastore write, call/return stamps from one atomic counter; distinct = distinct (parameters, linearization-relevant history shape); non-trivial = at least 16 accepted puts, reads overlapping puts, and all quiescence checks performed")
	run.Assume("stamps come from one atomic counter; an operation's effect lies between its call and return stamp",
		"Get is not part of the linearizability model (the property does not promise it); it is checked for found/immutable only at instances already observed through Latest",
		"the watchdog (45 s wall clock per history) only separates 'writer parked in a channel send inside Store.Put' (violation) from any other stall (inconclusive)")
	var aborted atomic.Int64
	var nontrivial atomic.Int64
	body := func(i int) {
		if aborted.Load() > 0 {
			return
		}
		run.Breadcrumb(fmt.Sprintf("case=%d", i))
		c, completed := runConc(run, i)
		if !completed {
			aborted.Add(1)
			return
		}
		run.Eval(1)
		for k, v := range c.counts {
			run.Count(k, v)
		}
		if c.dual {
			run.Count("histories_two_writers", 1)
		} else {
			run.Count("histories_one_writer", 1)
		}
		overlap := 0
		for _, op := range c.history {
			if _, ok := op.Input.(latestIn); ok && op.Output.(int64) >= 0 && op.Output.(int64) < int64(c.n-1) {
				overlap++
			}
		}
		run.Count("latest_calls_during_writes", int64(overlap))
		if overlap > 0 && c.counts["subscribers_checked_at_quiescence"] >= 3 {
			nontrivial.Add(1)
			h := fmt.Sprintf("%d|%d|%d|%v|", c.first, c.freq, c.n, c.dual)
			for _, op := range c.history {
				h += fmt.Sprintf("%v%v;", op.Input, op.Output)
			}
			run.Distinct(h)
		}
		if i < 3 {
			run.Sample(map[string]any{"case": i, "first": c.first, "frequency": c.freq, "instances": c.n, "two_writers": c.dual,
				"history_operations": len(c.history), "latest_calls_during_writes": overlap, "counts": c.counts})
		}
		seenSig := map[string]bool{}
		for _, p := range c.problems {
			sig, detail, _ := strings.Cut(p, "\x00")
			if seenSig[sig] {
				continue
			}
			seenSig[sig] = true
			run.Violation(sig, map[string]any{"case": i, "case_seed": c.seed, "first": c.first, "frequency": c.freq, "instances": c.n,
				"two_writers": c.dual, "detail": detail, "all_problems": len(c.problems)})
		}
	}
	if run.Case >= 0 {
		body(int(run.Case))
	} else {
		vkit.Parallel(n, max(2, runtime.GOMAXPROCS(0)/2), body)
		if run.Violations() == 0 && (nontrivial.Load()*2 < int64(n) || run.Counter("porcupine_ok")*10 < int64(n)*9) {
			run.Inconclusive("too-few-events")
		}
	}
	rc := run.Finish()
	if rc != 0 {
		t.Fail()
	}
	if rc == 2 {
		os.Exit(2)
	}
}
