package c09

import "testing"

func TestConcurrent(t *testing.T) { t.Skip("todo") }
