#!/bin/bash
# usage: run.sh <name> <python-snippet-file>
set -u
name=$1; snippet=$2
cd /tmp/wt-c18 && git checkout -q -- . 
python3 "$snippet" || { echo "MUTATION $name: could not apply"; exit 3; }
(cd /tmp/wt-c18 && GOPROXY=off go build ./chainexchange/ ./gpbft/) || { echo "MUTATION $name: does not build"; exit 3; }
git -C /tmp/wt-c18 diff --stat | tail -1
cd /verif && rm -rf /verif/.alt/*/replays/C18
GOMAXPROCS=8 VERIF_REPO=/tmp/wt-c18 ./check C18 quick > /verif/.scratch-c18-mut/$name.log 2>&1
rc=$?
echo "MUTATION $name exit=$rc"
grep -h "what:" /verif/.scratch-c18-mut/$name.log | sed 's/[0-9]\+/N/g' | sort | uniq -c | sort -rn | head -6
python3 - <<PY
import json,glob
cs=[]
for f in glob.glob('/verif/.alt/*/replays/C18/*.json'):
    try:
        w=json.load(open(f))['witness']; cs.append(w.get('case'))
    except Exception as e: pass
print("  first violating cases:", sorted(c for c in cs if c is not None)[:5])
PY
grep -h "RESULT\|INCONCL\|KNOWN" /verif/.scratch-c18-mut/$name.log | cut -c1-160
