p='/tmp/wt-c18/chainexchange/pubsub.go'
s=open(p).read()
# GetChainByInstance: promotion removes the chain from discovered but forgets to add it to wanted
old='''		wanted.Add(key, portion)
		metrics.chains.Add(ctx, 1, metric.WithAttributeSet(
			attrFromWantedDiscovered(true, true)))
		discovered.Remove(key)'''
assert s.count(old)==1
s=s.replace(old,'''		metrics.chains.Add(ctx, 1, metric.WithAttributeSet(
			attrFromWantedDiscovered(true, true)))
		discovered.Remove(key)''')
open(p,'w').write(s)
