p='/tmp/wt-c18/chainexchange/pubsub.go'
s=open(p).read()
old='if lowerBound > cmsg.Timestamp || cmsg.Timestamp > now {'
assert s.count(old)==1
s=s.replace(old,'if false && (lowerBound > cmsg.Timestamp || cmsg.Timestamp > now) {')
open(p,'w').write(s)
