p='/tmp/wt-c18/chainexchange/pubsub.go'
s=open(p).read()
# validator: empty-chain rule dropped
old='''	if cmsg.Chain.IsZero() {
		// No peer should broadcast a zero-length chain.
		return pubsub.ValidationReject
	}
'''
assert s.count(old)==1
s=s.replace(old,'')
open(p,'w').write(s)
