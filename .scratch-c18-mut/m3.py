p='/tmp/wt-c18/chainexchange/pubsub.go'
s=open(p).read()
# cacheAsDiscoveredChain: key computed from the full chain for every prefix
i=s.index('func (p *PubSubChainExchange) cacheAsDiscoveredChain')
old='key := prefix.Key()'
j=s.index(old,i)
s=s[:j]+'key := cmsg.Chain.Key()'+s[j+len(old):]
open(p,'w').write(s)
