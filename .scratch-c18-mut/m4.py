p='/tmp/wt-c18/chainexchange/pubsub.go'
s=open(p).read()
assert s.count('if i < instance {')==2
s=s.replace('if i < instance {','if i <= instance {')
open(p,'w').write(s)
