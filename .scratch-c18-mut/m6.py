p='/tmp/wt-c18/chainexchange/pubsub.go'
s=open(p).read()
old='if !msgBase.Equal(currentBase) {'
assert s.count(old)==1
s=s.replace(old,'if false && !msgBase.Equal(currentBase) {')
open(p,'w').write(s)
