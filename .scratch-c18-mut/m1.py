p='/tmp/wt-c18/chainexchange/pubsub.go'
s=open(p).read()
# cacheAsDiscoveredChain: loop stops before the base-chain prefix
i=s.index('func (p *PubSubChainExchange) cacheAsDiscoveredChain')
old='for i := len(allPrefixes) - 1; i >= 0 && ctx.Err() == nil; i-- {'
j=s.index(old,i)
s=s[:j]+'for i := len(allPrefixes) - 1; i > 0 && ctx.Err() == nil; i-- {'+s[j+len(old):]
open(p,'w').write(s)
