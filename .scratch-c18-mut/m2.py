p='/tmp/wt-c18/chainexchange/pubsub.go'
s=open(p).read()
# cacheAsWantedChain: loop starts one short (the full own chain is never cached)
i=s.index('func (p *PubSubChainExchange) cacheAsWantedChain')
old='for i := len(allPrefixes) - 1; i >= 0 && ctx.Err() == nil; i-- {'
j=s.index(old,i)
s=s[:j]+'for i := len(allPrefixes) - 2; i >= 0 && ctx.Err() == nil; i-- {'+s[j+len(old):]
open(p,'w').write(s)
