p='/tmp/wt-c18/chainexchange/pubsub.go'
s=open(p).read()
old='cmsg.Instance > current.ID+p.maxInstanceLookahead:'
assert s.count(old)==1
s=s.replace(old,'cmsg.Instance > current.ID+p.maxInstanceLookahead+1:')
open(p,'w').write(s)
